"""Run table: which explorations decide which property, per tier (see DESIGN.md section 5).

Each entry is one engine invocation.  Alphabet and oracle flags are documented in
mc/src/{msys,ksys,ssys}.rs; `--prop`, `--out` and `--replay-dir` are added by ./check.
"""

MA = "del,delh,clear"            # map/set alphabet: insert, delete by key (present+absent), delete by handle, clear
MAW = "del,delh,wr,clear"        # ... plus write through a handle
KA = "fl,fle,fleby,get,clear,restart"   # expiring tree alphabet (insert and tick are always on)
SA = "clear,restart,partial"     # segment tree alphabet: insert/query always on; clear, clock restart, partially consumed iterators


def M(sys, n, flags, pay="u16", mode="live", hint=8, inject=0, crash=0, cap_s=3000, max_states=None, label=None, audit=0, deep=0, quq=0, tail2=0, cs=0):
    a = ["bfs", "--sys", sys, "--pay", pay, "--n", str(n), "--mode", mode, "--hint", str(hint), "--flags", flags, "--max-secs", str(cap_s)]
    if audit:
        a += ["--audit", "1"]
        label = label or f"{sys}<{pay}> N={n} {mode} hint={hint} + abstraction audit (observations and unmerged suffixes on every arrival)"
    if quq and cs:
        a += ["--quq-cs", str(cs)]
        label = label or f"{sys}<{pay}> N={n} {mode} hint={hint} + query, then every sequence of 1..{quq + cs} updates, full observation suite after each (single queries after the first {quq}), unmerged"
    if quq and tail2:
        a += ["--quq-tail", str(1 + tail2)]
    if quq:
        a += ["--quq", str(quq)]
        label = label or f"{sys}<{pay}> N={n} {mode} hint={hint}" + (" + two trailing queries" if tail2 == 1 else " + any query and then the leading query again" if tail2 == 2 else "") + f" + query-updates-query audit: from every state every query, every sequence of 1..{quq} updates, every query (unmerged)"
    if deep:
        a += ["--deep", str(deep)]
        label = label or f"{sys}<{pay}> N={n} {mode} hint={hint} + deep audit: every unmerged suffix of length {deep} (updates and queries in every order) from every state"
    if inject:
        a += ["--inject", str(inject)]
    if crash:
        a += ["--crash-only", "1"]
    if max_states:
        a += ["--max-states", str(max_states)]
    return {"args": a, "label": label or f"{sys}<{pay}> N={n} {mode} hint={hint}" + (f" inject<={inject}" if inject else "") + (" crash-only" if crash else "")}


def K(sys, n, t, flags, mode="live", hint=8, inject=0, crash=0, cap_s=3000, max_states=None, label=None, tbase=0, audit=0, deep=0, quq=0, tail2=0, cs=0):
    a = ["bfs", "--sys", sys, "--n", str(n), "--t", str(t), "--mode", mode, "--hint", str(hint), "--flags", flags, "--max-secs", str(cap_s)]
    if audit:
        a += ["--audit", "1"]
        label = label or f"{sys} N={n} T={t} {mode} hint={hint} + abstraction audit (query battery after clear / restart / tick, unmerged, on every arrival)"
    if quq and cs:
        a += ["--quq-cs", str(cs)]
        label = label or f"{sys} N={n} T={t} {mode} hint={hint} + query, then every sequence of 1..{quq + cs} updates, full observation suite after each (single queries after the first {quq}), unmerged"
    if quq and tail2:
        a += ["--quq-tail", str(1 + tail2)]
    if quq:
        a += ["--quq", str(quq)]
        label = label or f"{sys} N={n} T={t} {mode} hint={hint}" + (" + two trailing queries" if tail2 == 1 else " + any query and then the leading query again" if tail2 == 2 else "") + f" + query-updates-query audit: from every state every query, every sequence of 1..{quq} updates, every query (unmerged)"
    if deep:
        a += ["--deep", str(deep)]
        label = label or f"{sys} N={n} T={t} {mode} hint={hint} + deep audit: every unmerged suffix of length {deep} from every state"
    if tbase:
        a += ["--tbase", str(tbase)]
        label = label or f"{sys} N={n} T={t} {mode} hint={hint} times {tbase}..{tbase + t + 1} (top of the u8 time type)"
    if inject:
        a += ["--inject", str(inject)]
    if crash:
        a += ["--crash-only", "1"]
    if max_states:
        a += ["--max-states", str(max_states)]
    return {"args": a, "label": label or f"{sys} N={n} T={t} {mode} hint={hint}" + (f" inject<={inject}" if inject else "") + (" crash-only" if crash else "")}


def S(lo, hi, flags, pop=2, coord="i32", inject=0, crash=0, cap_s=3000, t=2, emax=2, label=None, audit=0, deep=0, quq=0):
    a = ["bfs", "--sys", "seg", "--coord", coord, "--lo", str(lo), "--hi", str(hi), "--pop", str(pop), "--t", str(t), "--emax", str(emax), "--flags", flags, "--max-secs", str(cap_s)]
    if audit:
        a += ["--audit", "1"]
        label = label or f"seg<{coord}>[{lo},{hi}] pop<={pop} + abstraction audit"
    if quq:
        a += ["--quq", str(quq)]
        label = label or f"seg<{coord}>[{lo},{hi}] pop<={pop} + query-updates-query audit (1..{quq} updates, unmerged)"
    if deep:
        a += ["--deep", str(deep)]
        label = label or f"seg<{coord}>[{lo},{hi}] pop<={pop} + deep audit: every unmerged suffix of length {deep} from every state"
    if inject:
        a += ["--inject", str(inject)]
    if crash:
        a += ["--crash-only", "1"]
    return {"args": a, "label": label or f"seg<{coord}>[{lo},{hi}] pop<={pop}" + (f" inject<={inject}" if inject else "") + (" crash-only" if crash else "")}


def F(sys, flags, pay="u16", hint=8, sizes=None, crash=0, label=None, inject=0, sparse=0):
    """deterministic family of long histories (trees of 9..120 entries, all insertion/deletion order patterns)"""
    n = 120
    if sizes:
        n = max(int(x) for x in sizes.split(",")) + 1
    a = ["family", "--sys", sys, "--pay", pay, "--n", str(n), "--t", "5", "--hint", str(hint), "--flags", flags]
    if sizes:
        a += ["--sizes", sizes]
    if crash:
        a += ["--crash-only", "1"]
    if inject:
        a += ["--inject", "1"]
    if sparse:
        a += ["--sparse", "1"]
        label = label or f"family {sys}<{pay}> sizes {sizes or '9..120'} hint={hint}: explicit queries in scrambled order between the updates, observation suite every 16th step"
    return {"args": a, "label": label or f"family {sys}<{pay}> sizes {sizes or '9..120'} hint={hint}" + (" crash-only" if crash else "") + (" + a panic at every callback of every step" if inject else "")}


def FS(lo, hi, flags, coord="i32", inject=0, crash=0, label=None):
    """segment tree: family of long histories (up to 12 values per bucket list, stale-clock patterns, overlapping ranges)"""
    a = ["family", "--sys", "seg", "--coord", coord, "--lo", str(lo), "--hi", str(hi), "--flags", flags]
    if inject:
        a += ["--inject", "1"]
    if crash:
        a += ["--crash-only", "1"]
    return {"args": a, "label": label or f"family seg<{coord}>[{lo},{hi}]" + (" crash-only" if crash else "") + (" + a panic at every callback of every step" if inject else "")}


def SW(kind, flags="", label=None, as_gb=None, **kw):
    a = ["sweep", "--kind", kind]
    if flags:
        a += ["--flags", flags]
    for k, v in kw.items():
        a += ["--" + k.replace("_", "-"), str(v)]
    d = {"args": a, "label": label or f"sweep {kind} {flags} " + " ".join(f"{k}={v}" for k, v in kw.items())}
    if as_gb:
        d["as_gb"] = as_gb
    return d


DOMAINS_Q = [(0, 16), (0, 31), (-7, 92), (-1000, 3095)]
DOMAINS_T = DOMAINS_Q + [(-(1 << 20), (1 << 20) + 12345), (-(1 << 31), (1 << 31) - 1)]

SPECS = {}

# --- expiring-key tree -------------------------------------------------------
SPECS["C01"] = {
    "quick": [SW("bigk", sys="ktree", label="bigk ktree<u32 keys>: 864 long histories on expiring trees of 127 ... 4000 entries, hints 0/8/9/128/256/1000: three insert waves through expired never-queried entries, re-insertion, every lookup, export"), K("ktree", 2, 2, KA + ",o_pred", quq=1, cs=1), K("ktree", 3, 2, KA + ",o_pred", quq=1, tail2=2), K("ktree", 2, 2, KA + ",o_pred", quq=1, tail2=1), K("ktree", 2, 2, KA + ",o_pred", quq=2), K("ktree", 3, 2, KA + ",o_pred", quq=1), K("ktree", 2, 2, KA + ",o_pred", deep=3), K("ktree", 3, 1, KA + ",o_pred", deep=2), K("ktree", 3, 3, KA + ",o_pred", audit=1), K("ktree", 3, 3, KA + ",o_pred", tbase=252), K("ktree", 5, 1, "fleby,clear,o_pred"), F("ktree", "fl,fle,fleby,get,o_pred"), K("ktree", 3, 3, KA + ",o_pred", tbase=251), K("ktree", 4, 3, KA + ",o_pred"), K("ktree", 3, 3, KA + ",o_pred"), K("ktree", 3, 2, KA + ",o_pred", mode="full"), K("ktree", 8, 0, "fleby,clear,o_pred", mode="shape", label="ktree N=8 T=0 shape (arena growth)")],
    "thorough": [SW("bigk", sys="ktree", label="bigk ktree<u32 keys>: 864 long histories on expiring trees of 127 ... 4000 entries, hints 0/8/9/128/256/1000: three insert waves through expired never-queried entries, re-insertion, every lookup, export"), K("ktree", 2, 2, KA + ",o_pred", quq=1, cs=1), K("ktree", 3, 1, KA + ",o_pred", quq=2, tail2=2), K("ktree", 3, 2, KA + ",o_pred", quq=2, tail2=2, cap_s=1500), K("ktree", 3, 2, KA + ",o_pred", quq=1, tail2=2), K("ktree", 2, 2, KA + ",o_pred", quq=1, tail2=1), K("ktree", 3, 2, KA + ",o_pred", quq=2), K("ktree", 2, 2, KA + ",o_pred", quq=2), K("ktree", 3, 2, KA + ",o_pred", quq=1), K("ktree", 3, 2, KA + ",o_pred", deep=2), K("ktree", 2, 2, KA + ",o_pred", deep=3), K("ktree", 3, 1, KA + ",o_pred", deep=2), K("ktree", 3, 3, KA + ",o_pred", audit=1), K("ktree", 3, 3, KA + ",o_pred", tbase=252), K("ktree", 5, 1, "fleby,clear,o_pred"), F("ktree", "fl,fle,fleby,get,o_pred"), K("ktree", 4, 4, KA + ",o_pred"), K("ktree", 5, 2, KA + ",o_pred", cap_s=900), K("ktree", 3, 3, KA + ",o_pred", mode="full"),
                 K("ktree", 8, 1, "fle,fleby,clear,o_pred", mode="shape", cap_s=900), K("ktree", 4, 3, KA + ",o_pred", hint=9)],
}
SPECS["C06"] = {
    "quick": [SW("bigk", sys="ktree", label="bigk ktree<u32 keys>: 864 long histories on expiring trees of 127 ... 4000 entries, hints 0/8/9/128/256/1000: three insert waves through expired never-queried entries, re-insertion, every lookup, export"), K("ktree", 2, 2, KA + ",o_get", quq=1, cs=1), K("ktree", 3, 2, KA + ",o_get", quq=1, tail2=2), K("ktree", 2, 2, KA + ",o_get", quq=1, tail2=1), K("ktree", 2, 2, KA + ",o_get", quq=2), K("ktree", 3, 2, KA + ",o_get", quq=1), K("ktree", 2, 2, KA + ",o_get", deep=3), K("ktree", 3, 1, KA + ",o_get", deep=2), K("ktree", 3, 3, KA + ",o_get", audit=1), K("ktree", 3, 3, KA + ",o_get", tbase=252), K("ktree", 5, 1, "get,o_get"), F("ktree", "fl,fle,fleby,get,o_get"), K("ktree", 3, 3, KA + ",o_get", tbase=251), K("ktree", 4, 3, KA + ",o_get"), K("ktree", 3, 3, KA + ",o_get"), K("ktree", 3, 2, KA + ",o_get", mode="full"), K("ktree", 8, 0, "get,clear,o_get", mode="shape")],
    "thorough": [SW("bigk", sys="ktree", label="bigk ktree<u32 keys>: 864 long histories on expiring trees of 127 ... 4000 entries, hints 0/8/9/128/256/1000: three insert waves through expired never-queried entries, re-insertion, every lookup, export"), K("ktree", 2, 2, KA + ",o_get", quq=1, cs=1), K("ktree", 3, 2, KA + ",o_get", quq=1, tail2=2), K("ktree", 2, 2, KA + ",o_get", quq=1, tail2=1), K("ktree", 3, 2, KA + ",o_get", quq=2), K("ktree", 2, 2, KA + ",o_get", quq=2), K("ktree", 3, 2, KA + ",o_get", quq=1), K("ktree", 3, 2, KA + ",o_get", deep=2), K("ktree", 2, 2, KA + ",o_get", deep=3), K("ktree", 3, 1, KA + ",o_get", deep=2), K("ktree", 3, 3, KA + ",o_get", audit=1), K("ktree", 3, 3, KA + ",o_get", tbase=252), K("ktree", 5, 1, "get,o_get"), F("ktree", "fl,fle,fleby,get,o_get"), K("ktree", 4, 4, KA + ",o_get"), K("ktree", 5, 2, KA + ",o_get", cap_s=900), K("ktree", 3, 3, KA + ",o_get", mode="full"), K("ktree", 9, 1, "get,clear,o_get", mode="shape", cap_s=900)],
}
SPECS["C07"] = {
    "quick": [SW("bigk", sys="klist", label="bigk klist<u32 keys>: the same 864 histories on the sorted-list twin"), SW("bigk", sys="ktree", label="bigk ktree<u32 keys>: 864 long histories on expiring trees of 127 ... 4000 entries, hints 0/8/9/128/256/1000: three insert waves through expired never-queried entries, re-insertion, every lookup, export"), K("ktree", 8, 0, "fleby,clear,o_export", mode="shape"), K("ktree", 3, 3, KA + ",o_export", tbase=252), K("klist", 3, 3, KA + ",o_export", tbase=252), F("ktree", "fl,fle,fleby,get,o_export"), F("klist", "fl,fle,fleby,get,o_export"), K("ktree", 3, 3, KA + ",o_export", tbase=251), K("klist", 3, 3, KA + ",o_export", tbase=251), K("ktree", 4, 2, KA + ",o_export"), K("ktree", 3, 3, KA + ",o_export"), K("klist", 3, 3, KA + ",o_export"), K("ktree", 3, 2, KA + ",o_export", mode="full")],
    "thorough": [SW("bigk", sys="klist", label="bigk klist<u32 keys>: the same 864 histories on the sorted-list twin"), SW("bigk", sys="ktree", label="bigk ktree<u32 keys>: 864 long histories on expiring trees of 127 ... 4000 entries, hints 0/8/9/128/256/1000: three insert waves through expired never-queried entries, re-insertion, every lookup, export"), K("ktree", 3, 3, KA + ",o_export", tbase=252), K("klist", 3, 3, KA + ",o_export", tbase=252), F("ktree", "fl,fle,fleby,get,o_export"), F("klist", "fl,fle,fleby,get,o_export"), K("ktree", 4, 4, KA + ",o_export", cap_s=1200), K("klist", 4, 4, KA + ",o_export"), K("ktree", 3, 3, KA + ",o_export", mode="full"), K("ktree", 8, 0, "fleby,clear,o_export", mode="shape")],
}
SPECS["C19"] = {
    "quick": [SW("bigk", sys="ktree", label="bigk ktree<u32 keys>: 864 long histories on expiring trees of 127 ... 4000 entries, hints 0/8/9/128/256/1000: three insert waves through expired never-queried entries, re-insertion, every lookup, export"), F("ktree", "fl,fle,fleby,get,o_cap"), F("klist", "fl,fle,fleby,get,o_cap"), K("ktree", 4, 2, KA + ",o_cap"), K("ktree", 3, 2, KA + ",o_cap"), K("klist", 3, 2, KA + ",o_cap"), K("ktree", 8, 0, "fleby,clear,o_cap", mode="shape"), SW("export-sizes", kmax=14, as_gb=6)],
    "thorough": [SW("bigk", sys="ktree", label="bigk ktree<u32 keys>: 864 long histories on expiring trees of 127 ... 4000 entries, hints 0/8/9/128/256/1000: three insert waves through expired never-queried entries, re-insertion, every lookup, export"), SW("export-sizes", kmax=12, grow=70000, as_gb=8, label="expiring tree / list: growth steps above 65536 slots"), F("ktree", "fl,fle,fleby,get,o_cap"), F("klist", "fl,fle,fleby,get,o_cap"), K("ktree", 4, 3, KA + ",o_cap"), K("ktree", 9, 1, "fleby,o_cap", mode="shape", cap_s=900), SW("export-sizes", kmax=21, list_max=8192, as_gb=8)],
}
SPECS["C20"] = {
    "quick": [K("ktree", 3, 2, KA + ",o_log", quq=1, tail2=2), K("ktree", 2, 2, KA + ",o_log", quq=2), K("klist", 2, 2, KA + ",o_log", quq=2), K("ktree", 2, 2, KA + ",o_log", deep=3), K("ktree", 3, 3, KA + ",o_log", audit=1), K("ktree", 3, 3, KA + ",o_log", tbase=252), K("klist", 3, 3, KA + ",o_log", tbase=252), K("ktree", 5, 1, "fleby,get,o_log"), F("ktree", "fl,fle,fleby,get,o_log"), F("klist", "fl,fle,fleby,get,o_log"), K("ktree", 3, 3, KA + ",o_log", tbase=251), K("klist", 3, 3, KA + ",o_log", tbase=251), K("ktree", 4, 3, KA + ",o_log"), K("ktree", 3, 3, KA + ",o_log"), K("klist", 3, 3, KA + ",o_log"), K("ktree", 3, 2, KA + ",o_log", mode="full")],
    "thorough": [K("ktree", 3, 2, KA + ",o_log", quq=1, tail2=2), K("ktree", 2, 2, KA + ",o_log", quq=2), K("klist", 2, 2, KA + ",o_log", quq=2), K("ktree", 2, 2, KA + ",o_log", deep=3), K("ktree", 3, 3, KA + ",o_log", audit=1), K("ktree", 3, 3, KA + ",o_log", tbase=252), K("klist", 3, 3, KA + ",o_log", tbase=252), K("ktree", 5, 1, "fleby,get,o_log"), F("ktree", "fl,fle,fleby,get,o_log"), F("klist", "fl,fle,fleby,get,o_log"), K("ktree", 4, 4, KA + ",o_log"), K("klist", 4, 4, KA + ",o_log"), K("ktree", 5, 2, KA + ",o_log", cap_s=900), K("ktree", 8, 0, "fleby,get,clear,o_log", mode="shape")],
}

# --- map / set ---------------------------------------------------------------
SPECS["C04"] = {
    "quick": [SW("bigtree", sys="maptree", sizes="500,1023,1024,1025,3000,10000", label="bigtree maptree<u32,u32>: 450+ long histories on trees of 500 ... 10000 (thorough 65537) entries, hints 0/1/8/9/1025: fill, thin out to 0/1/10/50/100 %, clear, refill with twice as many, drain"), F("maptree", MA + ",o_ref,o_handle", sparse=1), M("maptree", 3, MA + ",o_ref,o_handle", quq=1, cs=2), M("maptree", 3, MA + ",o_ref", quq=1, tail2=2), M("maptree", 3, MA + ",o_ref", quq=2), M("maptree", 3, MA + ",o_ref", deep=3), M("maptree", 5, MA + ",o_ref", audit=1), M("maptree", 5, MAW + ",o_ref", pay="track"), F("maptree", MA + ",o_ref", pay="track", sizes="9,17,33"), F("maptree", MA + ",o_ref"), F("maptree", MA + ",o_ref", pay="heap", hint=0, sizes="9,17,33,65"), M("maptree", 6, MA + ",o_ref"), M("maptree", 4, MAW + ",o_ref", pay="heap", hint=0), M("maptree", 4, MAW + ",o_ref", hint=1),
              M("maptree", 10, "del,clear,o_ref", mode="shape"), M("maptree", 10, "del,clear,o_ref", mode="shape", hint=9), M("maptree", 3, MA + ",o_ref", mode="full"), M("maptree", 3, MAW + ",o_ref", hint=64)],
    "thorough": [SW("bigtree", sys="maptree", sizes="500,1023,1024,1025,3000,10000,65537", label="bigtree maptree<u32,u32>: 450+ long histories on trees of 500 ... 10000 (thorough 65537) entries, hints 0/1/8/9/1025: fill, thin out to 0/1/10/50/100 %, clear, refill with twice as many, drain"), F("maptree", MA + ",o_ref,o_handle", sparse=1), M("maptree", 4, MA + ",o_ref,o_handle", quq=1, cs=2), M("maptree", 3, MA + ",o_ref,o_handle", quq=2, cs=2), M("maptree", 3, MA + ",o_ref,o_handle", quq=1, cs=2), M("maptree", 4, MAW + ",o_ref", quq=1, tail2=2), M("maptree", 14, "del,clear,o_ref", mode="shape", cap_s=1500), M("maptree", 3, MAW + ",o_ref", quq=2), M("maptree", 3, MAW + ",o_ref", deep=3), M("maptree", 5, MA + ",o_ref", audit=1), M("maptree", 5, MAW + ",o_ref", pay="track"), F("maptree", MA + ",o_ref", pay="track", sizes="9,17,33"), F("maptree", MA + ",o_ref"), F("maptree", MA + ",o_ref", pay="heap", hint=0, sizes="9,17,33,65"), M("maptree", 7, MA + ",o_ref"), M("maptree", 6, MA + ",o_ref", pay="heap", hint=0), M("maptree", 5, MAW + ",o_ref", hint=1),
                 M("maptree", 12, "del,clear,o_ref", mode="shape"), M("maptree", 12, "del,clear,o_ref", mode="shape", hint=9), M("maptree", 4, "del,clear,o_ref", mode="full", max_states=30000000, cap_s=1200), M("maptree", 5, MAW + ",o_ref", hint=64)],
}
SPECS["C05"] = {
    "quick": [SW("bigtree", sys="settree", sizes="500,1023,1024,1025,3000,10000", label="bigtree settree<u32,u32>: 450+ long histories on trees of 500 ... 10000 (thorough 65537) entries, hints 0/1/8/9/1025: fill, thin out to 0/1/10/50/100 %, clear, refill with twice as many, drain"), F("settree", MA + ",o_ref,o_handle", sparse=1), M("settree", 3, MA + ",o_ref,o_handle", quq=1, cs=2), M("settree", 3, MA + ",o_ref", quq=1, tail2=2), M("settree", 3, MA + ",o_ref", quq=2), M("settree", 3, MA + ",o_ref", deep=3), M("settree", 5, MA + ",o_ref", audit=1), M("settree", 5, MAW + ",o_ref", pay="track"), F("settree", MA + ",o_ref", pay="track", sizes="9,17,33"), F("settree", MA + ",o_ref"), F("settree", MA + ",o_ref", pay="heap", hint=0, sizes="9,17,33,65"), M("settree", 6, MA + ",o_ref"), M("settree", 4, MAW + ",o_ref", pay="heap", hint=0), M("settree", 6, MA + ",o_ref", pay="bare", hint=1),
              M("settree", 10, "del,clear,o_ref", mode="shape"), M("settree", 3, MA + ",o_ref", mode="full")],
    "thorough": [SW("bigtree", sys="settree", sizes="500,1023,1024,1025,3000,10000,65537", label="bigtree settree<u32,u32>: 450+ long histories on trees of 500 ... 10000 (thorough 65537) entries, hints 0/1/8/9/1025: fill, thin out to 0/1/10/50/100 %, clear, refill with twice as many, drain"), F("settree", MA + ",o_ref,o_handle", sparse=1), M("settree", 4, MA + ",o_ref,o_handle", quq=1, cs=2), M("settree", 3, MA + ",o_ref,o_handle", quq=2, cs=2), M("settree", 3, MA + ",o_ref,o_handle", quq=1, cs=2), M("settree", 4, MAW + ",o_ref", quq=1, tail2=2), M("settree", 14, "del,clear,o_ref", mode="shape", cap_s=1500), M("settree", 3, MAW + ",o_ref", quq=2), M("settree", 3, MAW + ",o_ref", deep=3), M("settree", 5, MA + ",o_ref", audit=1), M("settree", 5, MAW + ",o_ref", pay="track"), F("settree", MA + ",o_ref", pay="track", sizes="9,17,33"), F("settree", MA + ",o_ref"), F("settree", MA + ",o_ref", pay="heap", hint=0, sizes="9,17,33,65"), M("settree", 7, MA + ",o_ref"), M("settree", 6, MA + ",o_ref", pay="heap", hint=0), M("settree", 6, MA + ",o_ref", pay="bare", hint=1), M("settree", 5, MAW + ",o_ref", hint=64),
                 M("settree", 12, "del,clear,o_ref", mode="shape", hint=9), M("settree", 4, "del,clear,o_ref", mode="full", max_states=30000000, cap_s=1200)],
}
SPECS["C08"] = {
    "quick": [SW("bigtree", sys="settree", sizes="500,1023,1024,1025,3000,10000", label="bigtree settree<u32,u32>: 450+ long histories on trees of 500 ... 10000 (thorough 65537) entries, hints 0/1/8/9/1025: fill, thin out to 0/1/10/50/100 %, clear, refill with twice as many, drain"), SW("bigtree", sys="maptree", sizes="500,1023,1024,1025,3000,10000", label="bigtree maptree<u32,u32>: 450+ long histories on trees of 500 ... 10000 (thorough 65537) entries, hints 0/1/8/9/1025: fill, thin out to 0/1/10/50/100 %, clear, refill with twice as many, drain"), F("maptree", MA + ",o_ref,o_handle", sparse=1), F("settree", MA + ",o_ref,o_handle", sparse=1, hint=9), M("maptree", 3, MA + ",o_ref,o_handle", quq=1, cs=2), M("settree", 3, MA + ",o_ref,o_handle", quq=1, cs=2), M("maptree", 3, MA + ",o_handle,o_ref", quq=1, tail2=2), M("settree", 3, MA + ",o_handle,o_ref", quq=1, tail2=2), M("maptree", 3, MA + ",o_handle,o_ref", quq=1, tail2=1), M("settree", 3, MA + ",o_handle,o_ref", quq=1, tail2=1), M("maptree", 3, MA + ",o_handle,o_ref", quq=2), M("settree", 3, MA + ",o_handle,o_ref", quq=2), M("maptree", 3, MA + ",o_handle,o_ref", deep=3), M("settree", 3, MA + ",o_handle,o_ref", deep=3), M("maptree", 5, MA + ",o_handle", audit=1), M("settree", 5, MA + ",o_handle", audit=1), M("settree", 4, MAW + ",o_handle,o_ref", pay="track"), F("maptree", MA + ",o_handle"), F("settree", MA + ",o_handle"), M("maptree", 6, MA + ",o_handle"), M("settree", 6, MA + ",o_handle"), M("maptree", 4, MAW + ",o_handle,o_ref", pay="heap"), M("settree", 4, MAW + ",o_handle,o_ref"),
              M("maptree", 10, "delh,clear,o_handle", mode="shape"), M("settree", 10, "delh,clear,o_handle", mode="shape", hint=9)],
    "thorough": [SW("bigtree", sys="settree", sizes="500,1023,1024,1025,3000,10000,65537", label="bigtree settree<u32,u32>: 450+ long histories on trees of 500 ... 10000 (thorough 65537) entries, hints 0/1/8/9/1025: fill, thin out to 0/1/10/50/100 %, clear, refill with twice as many, drain"), SW("bigtree", sys="maptree", sizes="500,1023,1024,1025,3000,10000,65537", label="bigtree maptree<u32,u32>: 450+ long histories on trees of 500 ... 10000 (thorough 65537) entries, hints 0/1/8/9/1025: fill, thin out to 0/1/10/50/100 %, clear, refill with twice as many, drain"), F("maptree", MA + ",o_ref,o_handle", sparse=1), F("settree", MA + ",o_ref,o_handle", sparse=1, hint=9), M("maptree", 3, MA + ",o_ref,o_handle", quq=1, cs=2), M("settree", 3, MA + ",o_ref,o_handle", quq=1, cs=2), M("maptree", 4, MAW + ",o_handle,o_ref", quq=2, tail2=2), M("maptree", 4, MAW + ",o_handle,o_ref", quq=1, tail2=2), M("settree", 4, MAW + ",o_handle,o_ref", quq=1, tail2=2), M("maptree", 13, "delh,clear,o_handle", mode="shape", cap_s=1500), M("settree", 13, "delh,clear,o_handle", mode="shape", hint=9, cap_s=1500), M("maptree", 3, MAW + ",o_handle,o_ref", quq=1, tail2=1), M("settree", 3, MAW + ",o_handle,o_ref", quq=1, tail2=1), M("maptree", 4, MAW + ",o_handle,o_ref", quq=2), M("settree", 4, MAW + ",o_handle,o_ref", quq=2), M("maptree", 3, MAW + ",o_handle,o_ref", quq=3), M("maptree", 3, MAW + ",o_handle,o_ref", quq=2), M("settree", 3, MAW + ",o_handle,o_ref", quq=2), M("maptree", 4, MAW + ",o_handle,o_ref", deep=3), M("settree", 4, MAW + ",o_handle,o_ref", deep=3), M("maptree", 3, MAW + ",o_handle,o_ref", deep=3), M("settree", 3, MAW + ",o_handle,o_ref", deep=3), M("maptree", 5, MA + ",o_handle", audit=1), M("settree", 5, MA + ",o_handle", audit=1), M("settree", 4, MAW + ",o_handle,o_ref", pay="track"), F("maptree", MA + ",o_handle"), F("settree", MA + ",o_handle"), M("maptree", 7, MA + ",o_handle"), M("settree", 7, MA + ",o_handle"), M("maptree", 5, MAW + ",o_handle,o_ref", pay="heap"), M("settree", 5, MAW + ",o_handle,o_ref"),
                 M("maptree", 12, "delh,clear,o_handle", mode="shape"), M("settree", 12, "delh,clear,o_handle", mode="shape", hint=9)],
}
SPECS["C09"] = {
    "quick": [F("settree", MA + ",o_neigh,o_handle", sparse=1), M("settree", 3, MA + ",o_neigh,o_handle", quq=1, cs=2), M("settree", 3, MA + ",o_neigh,o_handle", quq=1, tail2=2), M("settree", 3, MA + ",o_neigh,o_handle", quq=1, tail2=1), M("settree", 3, MA + ",o_neigh,o_handle", quq=2), M("settree", 3, MA + ",o_neigh,o_handle", deep=3), M("settree", 5, MA + ",o_neigh", audit=1), F("settree", MA + ",o_neigh"), M("settree", 6, MA + ",o_neigh"), M("settree", 6, MA + ",o_neigh", pay="bare"), M("settree", 10, "del,clear,o_neigh", mode="shape"), M("settree", 3, MA + ",o_neigh", mode="full")],
    "thorough": [F("settree", MA + ",o_neigh,o_handle", sparse=1), M("settree", 3, MA + ",o_neigh,o_handle", quq=1, cs=2), M("settree", 4, MA + ",o_neigh,o_handle", quq=1, tail2=2), M("settree", 14, "del,clear,o_neigh", mode="shape", cap_s=1500), M("settree", 3, MA + ",o_neigh,o_handle", quq=1, tail2=1), M("settree", 4, MA + ",o_neigh,o_handle", quq=2), M("settree", 3, MA + ",o_neigh,o_handle", quq=2), M("settree", 3, MA + ",o_neigh,o_handle", deep=3), M("settree", 5, MA + ",o_neigh", audit=1), F("settree", MA + ",o_neigh"), M("settree", 7, MA + ",o_neigh"), M("settree", 6, MA + ",o_neigh", pay="bare"), M("settree", 12, "del,clear,o_neigh", mode="shape", hint=9), M("settree", 6, MA + ",o_neigh", pay="heap", hint=64)],
}
SPECS["C17"] = {
    "quick": [M("maptree", 3, MA + ",o_hstab,o_handle", quq=2), M("settree", 3, MA + ",o_hstab,o_handle", quq=2), F("maptree", MA + ",o_hstab"), F("settree", MA + ",o_hstab", hint=9), M("maptree", 6, MA + ",o_hstab"), M("settree", 6, MA + ",o_hstab"), M("maptree", 10, "del,clear,o_hstab", mode="shape"), M("settree", 10, "del,clear,o_hstab", mode="shape", hint=9), M("maptree", 4, MAW + ",o_hstab", pay="heap")],
    "thorough": [M("maptree", 14, "del,clear,o_hstab", mode="shape", cap_s=1500), M("settree", 14, "del,clear,o_hstab", mode="shape", hint=9, cap_s=1500), M("maptree", 3, MA + ",o_hstab,o_handle", quq=2), M("settree", 3, MA + ",o_hstab,o_handle", quq=2), F("maptree", MA + ",o_hstab"), F("settree", MA + ",o_hstab", hint=9), M("maptree", 7, MA + ",o_hstab"), M("settree", 7, MA + ",o_hstab"), M("maptree", 12, "del,clear,o_hstab", mode="shape"), M("settree", 12, "del,clear,o_hstab", mode="shape", hint=9), M("maptree", 5, MAW + ",o_hstab", pay="heap", hint=1)],
}
SPECS["C02"] = {
    "quick": [SW("bigk", sys="ktree", label="bigk ktree<u32 keys>: 864 long histories on expiring trees of 127 ... 4000 entries, hints 0/8/9/128/256/1000: three insert waves through expired never-queried entries, re-insertion, every lookup, export"), SW("bigtree", sys="settree", sizes="500,1023,1024,1025,3000,10000", label="bigtree settree<u32,u32>: 450+ long histories on trees of 500 ... 10000 (thorough 65537) entries, hints 0/1/8/9/1025: fill, thin out to 0/1/10/50/100 %, clear, refill with twice as many, drain"), SW("bigtree", sys="maptree", sizes="500,1023,1024,1025,3000,10000", label="bigtree maptree<u32,u32>: 450+ long histories on trees of 500 ... 10000 (thorough 65537) entries, hints 0/1/8/9/1025: fill, thin out to 0/1/10/50/100 %, clear, refill with twice as many, drain"), K("ktree", 5, 1, "get,o_rb"), F("maptree", MA + ",o_rb"), F("settree", MA + ",o_rb"), F("ktree", "fl,fle,fleby,get,o_rb"), K("ktree", 4, 2, KA + ",o_rb"), M("maptree", 6, MA + ",o_rb,histogram"), M("settree", 6, MA + ",o_rb,histogram"), K("ktree", 3, 3, KA + ",o_rb"), M("maptree", 10, "del,clear,o_rb,histogram", mode="shape"), M("settree", 10, "del,clear,o_rb,histogram", mode="shape"), K("ktree", 8, 0, "fleby,clear,o_rb", mode="shape")],
    "thorough": [SW("bigk", sys="ktree", sizes="10000,30000", label="bigk ktree<u32 keys>: 10000 and 30000 entries"), SW("bigk", sys="ktree", label="bigk ktree<u32 keys>: 864 long histories on expiring trees of 127 ... 4000 entries, hints 0/8/9/128/256/1000: three insert waves through expired never-queried entries, re-insertion, every lookup, export"), SW("bigtree", sys="settree", sizes="500,1023,1024,1025,3000,10000,65537", label="bigtree settree<u32,u32>: 450+ long histories on trees of 500 ... 10000 (thorough 65537) entries, hints 0/1/8/9/1025: fill, thin out to 0/1/10/50/100 %, clear, refill with twice as many, drain"), SW("bigtree", sys="maptree", sizes="500,1023,1024,1025,3000,10000,65537", label="bigtree maptree<u32,u32>: 450+ long histories on trees of 500 ... 10000 (thorough 65537) entries, hints 0/1/8/9/1025: fill, thin out to 0/1/10/50/100 %, clear, refill with twice as many, drain"), M("maptree", 14, "del,clear,o_rb,histogram", mode="shape", cap_s=1500), M("settree", 14, "del,clear,o_rb,histogram", mode="shape", hint=9, cap_s=1500), K("ktree", 5, 1, "get,o_rb"), F("maptree", MA + ",o_rb"), F("settree", MA + ",o_rb"), F("ktree", "fl,fle,fleby,get,o_rb"), M("maptree", 7, MA + ",o_rb,histogram"), M("settree", 7, MA + ",o_rb,histogram"), K("ktree", 4, 4, KA + ",o_rb"), K("ktree", 5, 2, KA + ",o_rb", cap_s=900),
                 M("maptree", 12, "del,clear,o_rb", mode="shape"), M("settree", 12, "del,clear,o_rb", mode="shape", hint=9), K("ktree", 8, 1, "fle,fleby,clear,o_rb", mode="shape", cap_s=900)],
}
SPECS["C11"] = {
    "quick": [SW("bigk", sys="ktree", label="bigk ktree<u32 keys>: 864 long histories on expiring trees of 127 ... 4000 entries, hints 0/8/9/128/256/1000: three insert waves through expired never-queried entries, re-insertion, every lookup, export"), SW("bigtree", sys="settree", sizes="500,1023,1024,1025,3000,10000", label="bigtree settree<u32,u32>: 450+ long histories on trees of 500 ... 10000 (thorough 65537) entries, hints 0/1/8/9/1025: fill, thin out to 0/1/10/50/100 %, clear, refill with twice as many, drain"), SW("bigtree", sys="maptree", sizes="500,1023,1024,1025,3000,10000", label="bigtree maptree<u32,u32>: 450+ long histories on trees of 500 ... 10000 (thorough 65537) entries, hints 0/1/8/9/1025: fill, thin out to 0/1/10/50/100 %, clear, refill with twice as many, drain"), M("maptree", 4, MA + ",o_arena", hint=1000), K("ktree", 3, 2, KA + ",o_arena", hint=1000), K("ktree", 5, 1, "get,o_arena"), F("maptree", MA + ",o_arena"), F("settree", MA + ",o_arena", hint=9), F("ktree", "fl,fle,fleby,get,o_arena"), F("maptree", MA + ",o_arena", hint=64, sizes="48,64,65,100"), K("ktree", 4, 2, KA + ",o_arena"), M("maptree", 6, MA + ",o_arena"), M("settree", 6, MA + ",o_arena"), K("ktree", 3, 3, KA + ",o_arena"),
              M("maptree", 4, MA + ",o_arena", hint=0), M("settree", 4, MA + ",o_arena", hint=1), K("ktree", 3, 2, KA + ",o_arena", hint=0),
              M("maptree", 10, "del,clear,o_arena", mode="shape"), M("settree", 10, "del,clear,o_arena", mode="shape", hint=9), K("ktree", 8, 0, "fleby,clear,o_arena", mode="shape", hint=9),
              M("maptree", 4, MA + ",o_arena", hint=64), K("ktree", 3, 2, KA + ",o_arena", hint=64)],
    "thorough": [SW("bigk", sys="ktree", sizes="10000,30000", label="bigk ktree<u32 keys>: 10000 and 30000 entries"), SW("bigk", sys="ktree", label="bigk ktree<u32 keys>: 864 long histories on expiring trees of 127 ... 4000 entries, hints 0/8/9/128/256/1000: three insert waves through expired never-queried entries, re-insertion, every lookup, export"), SW("bigtree", sys="maptree", sizes="262145", label="bigtree maptree<u32,u32>: 262145 entries (tree height above 32)"), SW("bigtree", sys="settree", sizes="262145", label="bigtree settree<u32,u32>: 262145 entries"), SW("export-sizes", kmax=12, grow=70000, as_gb=8, label="expiring tree / list: growth steps above 65536 slots (70000 inserts, clear, 140010 inserts; hint 70001 then 140003 inserts)"), SW("bigtree", sys="settree", sizes="500,1023,1024,1025,3000,10000,65537", label="bigtree settree<u32,u32>: 450+ long histories on trees of 500 ... 10000 (thorough 65537) entries, hints 0/1/8/9/1025: fill, thin out to 0/1/10/50/100 %, clear, refill with twice as many, drain"), SW("bigtree", sys="maptree", sizes="500,1023,1024,1025,3000,10000,65537", label="bigtree maptree<u32,u32>: 450+ long histories on trees of 500 ... 10000 (thorough 65537) entries, hints 0/1/8/9/1025: fill, thin out to 0/1/10/50/100 %, clear, refill with twice as many, drain"), M("maptree", 4, MA + ",o_arena", hint=1000), K("ktree", 3, 2, KA + ",o_arena", hint=1000), M("maptree", 14, "del,clear,o_arena", mode="shape", cap_s=1500), M("settree", 14, "del,clear,o_arena", mode="shape", hint=9, cap_s=1500), K("ktree", 5, 1, "get,o_arena"), F("maptree", MA + ",o_arena"), F("settree", MA + ",o_arena", hint=9), F("ktree", "fl,fle,fleby,get,o_arena"), F("maptree", MA + ",o_arena", hint=64, sizes="48,64,65,100"), M("maptree", 7, MA + ",o_arena"), M("settree", 7, MA + ",o_arena"), K("ktree", 4, 4, KA + ",o_arena"),
                 M("maptree", 6, MA + ",o_arena", hint=0), M("settree", 6, MA + ",o_arena", hint=1), K("ktree", 4, 3, KA + ",o_arena", hint=1),
                 M("maptree", 12, "del,clear,o_arena", mode="shape"), M("maptree", 12, "del,clear,o_arena", mode="shape", hint=9), M("settree", 12, "del,clear,o_arena", mode="shape", hint=9),
                 K("ktree", 9, 1, "fleby,clear,o_arena", mode="shape", hint=9, cap_s=900), M("settree", 6, MA + ",o_arena", hint=64), K("ktree", 4, 3, KA + ",o_arena", hint=64)],
}
SPECS["C12"] = {
    "quick": [SW("bigtree", sys="settree", sizes="500,1023,1024,1025,3000,10000", label="bigtree settree<u32,u32>: 450+ long histories on trees of 500 ... 10000 (thorough 65537) entries, hints 0/1/8/9/1025: fill, thin out to 0/1/10/50/100 %, clear, refill with twice as many, drain"), SW("bigtree", sys="maptree", sizes="500,1023,1024,1025,3000,10000", label="bigtree maptree<u32,u32>: 450+ long histories on trees of 500 ... 10000 (thorough 65537) entries, hints 0/1/8/9/1025: fill, thin out to 0/1/10/50/100 %, clear, refill with twice as many, drain"), M("maptree", 3, MA + ",o_twin,o_ref,o_handle", quq=1, cs=2), M("settree", 3, MA + ",o_twin,o_ref,o_handle", quq=1, cs=2), M("maptree", 3, MA + ",o_twin,o_ref,o_handle", quq=2), K("ktree", 2, 2, KA + ",o_twin,o_pred", quq=2), M("maptree", 3, MA + ",o_twin,o_ref,o_handle", deep=3), K("ktree", 2, 2, KA + ",o_twin,o_pred", deep=3), K("ktree", 3, 2, KA + ",o_twin,o_pred", audit=1), M("maptree", 4, MA + ",o_twin,o_ref,o_handle", audit=1), F("maptree", MA + ",o_twin,o_ref,o_handle"), F("settree", MA + ",o_twin,o_ref,o_handle", hint=9), F("maplist", MA + ",o_twin,o_ref,o_handle", sizes="9,17,33,65"), F("setlist", MA + ",o_twin,o_ref,o_handle", sizes="9,17,33,65"), F("ktree", "fl,fle,fleby,get,o_twin,o_pred"), F("klist", "fl,fle,fleby,get,o_twin,o_pred"), FS(0, 31, "o_query,o_twin"), FS(-7, 92, "o_query,o_twin"), K("klist", 3, 3, KA + ",o_twin,o_pred", tbase=252), K("ktree", 3, 3, KA + ",o_twin,o_pred", tbase=252), K("ktree", 4, 2, KA + ",o_twin,o_pred"), M("maptree", 4, MA + ",o_twin,o_ref,o_handle"), M("settree", 4, MA + ",o_twin,o_ref,o_handle"), M("maplist", 4, MA + ",o_twin,o_ref,o_handle"), M("setlist", 4, MA + ",o_twin,o_ref,o_handle"),
              K("ktree", 3, 2, KA + ",o_twin,o_pred"), K("klist", 3, 2, KA + ",o_twin,o_pred"), S(0, 31, SA + ",o_twin,o_query"), S(-7, 92, SA + ",o_twin,o_query"),
              M("maptree", 10, "del,clear,o_twin,o_ref", mode="shape"), M("settree", 10, "del,clear,o_twin,o_ref", mode="shape", hint=9), K("ktree", 8, 0, "fleby,clear,o_twin,o_pred", mode="shape")],
    "thorough": [SW("bigtree", sys="maptree", sizes="262145", label="bigtree maptree<u32,u32>: 262145 entries (tree height above 32)"), SW("bigtree", sys="settree", sizes="500,1023,1024,1025,3000,10000,65537", label="bigtree settree<u32,u32>: 450+ long histories on trees of 500 ... 10000 (thorough 65537) entries, hints 0/1/8/9/1025: fill, thin out to 0/1/10/50/100 %, clear, refill with twice as many, drain"), SW("bigtree", sys="maptree", sizes="500,1023,1024,1025,3000,10000,65537", label="bigtree maptree<u32,u32>: 450+ long histories on trees of 500 ... 10000 (thorough 65537) entries, hints 0/1/8/9/1025: fill, thin out to 0/1/10/50/100 %, clear, refill with twice as many, drain"), M("maptree", 3, MA + ",o_twin,o_ref,o_handle", quq=1, cs=2), M("settree", 3, MA + ",o_twin,o_ref,o_handle", quq=1, cs=2), M("maptree", 13, "del,clear,o_twin,o_ref", mode="shape", cap_s=1500), M("maptree", 3, MA + ",o_twin,o_ref,o_handle", quq=2), K("ktree", 2, 2, KA + ",o_twin,o_pred", quq=2), M("maptree", 3, MA + ",o_twin,o_ref,o_handle", deep=3), K("ktree", 2, 2, KA + ",o_twin,o_pred", deep=3), K("ktree", 3, 2, KA + ",o_twin,o_pred", audit=1), M("maptree", 4, MA + ",o_twin,o_ref,o_handle", audit=1), F("maptree", MA + ",o_twin,o_ref,o_handle"), F("settree", MA + ",o_twin,o_ref,o_handle", hint=9), F("maplist", MA + ",o_twin,o_ref,o_handle", sizes="9,17,33,65"), F("setlist", MA + ",o_twin,o_ref,o_handle", sizes="9,17,33,65"), F("ktree", "fl,fle,fleby,get,o_twin,o_pred"), F("klist", "fl,fle,fleby,get,o_twin,o_pred"), FS(0, 31, "o_query,o_twin"), FS(-7, 92, "o_query,o_twin"), K("klist", 3, 3, KA + ",o_twin,o_pred", tbase=252), K("ktree", 3, 3, KA + ",o_twin,o_pred", tbase=252), M("maptree", 6, MA + ",o_twin,o_ref,o_handle"), M("settree", 6, MA + ",o_twin,o_ref,o_handle"), M("maplist", 6, MAW + ",o_twin,o_ref,o_handle"), M("setlist", 6, MAW + ",o_twin,o_ref,o_handle"),
                 K("ktree", 4, 3, KA + ",o_twin,o_pred"), K("klist", 4, 4, KA + ",o_twin,o_pred"), S(0, 31, SA + ",o_twin,o_query", pop=3, cap_s=900), S(-7, 92, SA + ",o_twin,o_query"), S(0, 16, SA + ",o_twin,o_query"),
                 M("maptree", 12, "del,clear,o_twin,o_ref", mode="shape"), M("settree", 12, "del,clear,o_twin,o_ref", mode="shape", hint=9), K("ktree", 9, 1, "fleby,clear,o_twin,o_pred", mode="shape", cap_s=900)],
}
LISTS_M = MAW + ",o_ref,o_handle,o_pos,o_rb,o_neigh"
LISTS_K = KA + ",o_pred,o_get,o_export,o_log,o_rb"
SPECS["C13"] = {
    "quick": [SW("bigk", sys="klist", label="bigk klist<u32 keys>: the same 864 histories on the sorted-list twin"), F("maplist", LISTS_M, sizes="9,17,33,65", sparse=1), F("setlist", LISTS_M, sizes="9,17,33,65", sparse=1), M("maplist", 3, LISTS_M, quq=1, cs=2), M("setlist", 3, LISTS_M, quq=1, cs=2), K("klist", 2, 2, LISTS_K, quq=1, cs=1), K("klist", 3, 2, LISTS_K, quq=1, tail2=2), M("maplist", 3, LISTS_M, quq=1, tail2=2), M("setlist", 3, LISTS_M, quq=1, tail2=2), K("klist", 2, 2, LISTS_K, quq=1, tail2=1), M("maplist", 3, LISTS_M, quq=1, tail2=1), M("setlist", 3, LISTS_M, quq=1, tail2=1), M("maplist", 3, LISTS_M, quq=2), M("setlist", 3, LISTS_M, quq=2), K("klist", 2, 2, LISTS_K, quq=2), K("klist", 3, 2, LISTS_K, quq=1), M("maplist", 3, LISTS_M, deep=3), M("setlist", 3, LISTS_M, deep=3), K("klist", 2, 2, LISTS_K, deep=3), K("klist", 3, 3, LISTS_K, audit=1), M("maplist", 5, LISTS_M, audit=1), M("setlist", 5, LISTS_M, audit=1), M("maplist", 5, LISTS_M, pay="track"), M("setlist", 5, LISTS_M, pay="track"), K("klist", 3, 3, LISTS_K, tbase=252), K("klist", 4, 3, LISTS_K + ",o_twin", tbase=251), F("maplist", LISTS_M, sizes="9,17,33,65"), F("setlist", LISTS_M, sizes="9,17,33,65"), F("klist", "fl,fle,fleby,get,o_pred,o_get,o_export,o_log,o_rb"), K("klist", 4, 3, LISTS_K, tbase=251), M("maplist", 6, LISTS_M), M("setlist", 6, LISTS_M), M("maplist", 5, LISTS_M, pay="heap", hint=0), K("klist", 4, 4, LISTS_K), K("klist", 3, 3, LISTS_K, hint=0)],
    "thorough": [SW("bigk", sys="klist", label="bigk klist<u32 keys>: the same 864 histories on the sorted-list twin"), F("maplist", LISTS_M, sizes="9,17,33,65", sparse=1), F("setlist", LISTS_M, sizes="9,17,33,65", sparse=1), M("maplist", 3, LISTS_M, quq=1, cs=2), M("setlist", 3, LISTS_M, quq=1, cs=2), K("klist", 2, 2, LISTS_K, quq=1, cs=1), K("klist", 3, 2, LISTS_K, quq=1, tail2=2), M("maplist", 4, LISTS_M, quq=1, tail2=2), M("setlist", 4, LISTS_M, quq=1, tail2=2), K("klist", 2, 2, LISTS_K, quq=1, tail2=1), M("maplist", 3, LISTS_M, quq=1, tail2=1), M("setlist", 3, LISTS_M, quq=1, tail2=1), M("maplist", 4, LISTS_M, quq=2), M("setlist", 4, LISTS_M, quq=2), K("klist", 3, 2, LISTS_K, quq=2), M("maplist", 3, LISTS_M, quq=2), M("setlist", 3, LISTS_M, quq=2), K("klist", 2, 2, LISTS_K, quq=2), K("klist", 3, 2, LISTS_K, quq=1), M("maplist", 3, LISTS_M, deep=3), M("setlist", 3, LISTS_M, deep=3), K("klist", 2, 2, LISTS_K, deep=3), K("klist", 3, 3, LISTS_K, audit=1), M("maplist", 5, LISTS_M, audit=1), M("setlist", 5, LISTS_M, audit=1), M("maplist", 5, LISTS_M, pay="track"), M("setlist", 5, LISTS_M, pay="track"), K("klist", 3, 3, LISTS_K, tbase=252), K("klist", 4, 3, LISTS_K + ",o_twin", tbase=251), F("maplist", LISTS_M, sizes="9,17,33,65"), F("setlist", LISTS_M, sizes="9,17,33,65"), F("klist", "fl,fle,fleby,get,o_pred,o_get,o_export,o_log,o_rb"), M("maplist", 8, LISTS_M), M("setlist", 8, LISTS_M), M("setlist", 6, LISTS_M, pay="heap", hint=0), K("klist", 5, 4, LISTS_K, cap_s=900), K("klist", 4, 5, LISTS_K)],
}

# --- segment tree --------------------------------------------------------------
SPECS["C03"] = {
    "quick": [S(0, 31, SA + ",o_query", pop=1, quq=2), S(0, 31, SA + ",o_query", pop=2, deep=2), S(0, 31, "clear,restart,o_query", pop=1, deep=3), S(-7, 92, "clear,restart,o_query", pop=1, deep=3), S(0, 31, SA + ",o_query", audit=1), S(-7, 92, SA + ",o_query", audit=1), S(-(1 << 40), (1 << 40) + 5, SA + ",o_query", coord="i64"), FS(-(1 << 40), (1 << 40) + 5, "o_query", coord="i64"), S(0, (1 << 32) + 77, SA + ",o_query", coord="i64"), FS(0, 31, "o_query"), FS(-7, 92, "o_query"), FS(0, 16, "o_query"), SW("pairs", "sequential", emax=2, t=2)] + [SW("dpairs", lo=lo, hi=hi) for (lo, hi) in [(0, 16), (5, 37), (0, 63), (-7, 92), (0, 128)]] + [S(lo, hi, SA + ",o_query") for (lo, hi) in DOMAINS_Q],
    "thorough": [S(0, 31, "clear,restart,o_query", pop=2, quq=2), S(-7, 92, "clear,restart,o_query", pop=2, quq=1), S(0, 31, SA + ",o_query", pop=1, quq=2), S(0, 31, "clear,restart,o_query", pop=2, quq=1), S(0, 31, SA + ",o_query", pop=2, deep=2), S(0, 31, "clear,restart,o_query", pop=1, deep=3), S(-7, 92, "clear,restart,o_query", pop=1, deep=3), S(0, 31, SA + ",o_query", audit=1), S(-7, 92, SA + ",o_query", audit=1), S(-(1 << 40), (1 << 40) + 5, SA + ",o_query", coord="i64"), FS(-(1 << 40), (1 << 40) + 5, "o_query", coord="i64"), S(0, (1 << 32) + 77, SA + ",o_query", coord="i64"), FS(0, 31, "o_query"), FS(-7, 92, "o_query"), FS(0, 16, "o_query"), SW("pairs", "sequential", emax=3, t=3)] + [SW("dpairs", lo=lo, hi=hi) for (lo, hi) in [(0, 16), (5, 37), (0, 63), (-7, 92), (0, 128), (-100, 99), (-2147483648, -2147483648 + 150), (2147483647 - 199, 2147483647)]] + [S(lo, hi, SA + ",o_query") for (lo, hi) in DOMAINS_T[:-1]] + [S(-(1 << 31), (1 << 31) - 1, SA + ",o_query", coord="i64"), S(0, (1 << 32) - 1, SA + ",o_query", coord="u32"),
                 S(0, 31, SA + ",o_query", pop=3, cap_s=1200), S(-7, 92, SA + ",o_query", pop=3, cap_s=1200)],
}
SPECS["C14"] = {
    "quick": [SW("layout", lmax=2100, all_coords=2100)],
    "thorough": [SW("layout", lmax=70000, all_coords=2100)],
}
SPECS["C15"] = {
    "quick": [SW("pairs", "o_place", emax=0, t=0)],
    "thorough": [SW("pairs", "o_place,sequential", emax=1, t=1)],
}
SPECS["C16"] = {
    "quick": [S(-(1 << 40), (1 << 40) + 5, "clear,o_purge", coord="i64"), FS(0, 31, "o_purge"), FS(-7, 92, "o_purge"), SW("purge", "subranges"), S(0, 31, "clear,o_purge"), S(-7, 92, "clear,o_purge")],
    "thorough": [S(-(1 << 40), (1 << 40) + 5, "clear,o_purge", coord="i64"), FS(0, 31, "o_purge"), FS(-7, 92, "o_purge"), SW("purge", "subranges")] + [S(lo, hi, "clear,restart,o_purge") for (lo, hi) in DOMAINS_T] + [S(0, 31, "clear,o_purge", pop=3, cap_s=1200)],
}

# --- cross-cutting ---------------------------------------------------------------
INJ_M = MAW + ",o_ref,o_handle,o_rb,o_arena"
INJ_K = KA + ",o_pred,o_rb,o_arena"
SPECS["C18"] = {
    "quick": [M("maptree", 4, INJ_M, pay="track", inject=1), M("settree", 4, INJ_M, pay="track", inject=1), K("ktree", 8, 0, "fleby,clear,o_pred,o_rb,o_arena", mode="shape", inject=1), FS(0, 31, "o_query,o_struct", inject=1), FS(-7, 92, "o_query,o_struct", inject=1), F("maptree", INJ_M, sizes="9,16,17", inject=1), F("settree", INJ_M, sizes="9,16,17", inject=1), F("maplist", INJ_M, sizes="9,17", inject=1), F("setlist", INJ_M, sizes="9,17", inject=1), F("ktree", "fl,fle,fleby,get,o_pred,o_rb,o_arena", sizes="9,16,17", inject=1), F("klist", "fl,fle,fleby,get,o_pred,o_rb", sizes="9,17", inject=1), K("ktree", 4, 1, INJ_K, inject=1), M("maptree", 4, INJ_M, inject=1), M("settree", 4, INJ_M, inject=1), M("maplist", 4, INJ_M, inject=1), M("setlist", 4, INJ_M, inject=1),
              K("ktree", 3, 2, INJ_K, inject=1), K("klist", 3, 2, INJ_K, inject=1), S(0, 31, SA + ",o_query,o_struct", inject=1), S(-7, 92, SA + ",o_query,o_struct", inject=1)],
    "thorough": [K("ktree", 8, 1, "get,o_get,o_rb,o_arena", mode="shape", inject=1, cap_s=2400, label="ktree N=8 T=1 shape inject<=1 (a full arena, a moving clock and a panic at every callback)"), M("maptree", 4, INJ_M, pay="track", inject=1), M("settree", 4, INJ_M, pay="track", inject=1), FS(0, 31, "o_query,o_struct", inject=1), FS(-7, 92, "o_query,o_struct", inject=1), F("maptree", INJ_M, sizes="9,16,17", inject=1), F("settree", INJ_M, sizes="9,16,17", inject=1), F("maplist", INJ_M, sizes="9,17,33,40", inject=1), F("setlist", INJ_M, sizes="9,17,33,40", inject=1), F("ktree", "fl,fle,fleby,get,o_pred,o_rb,o_arena", sizes="9,16,17", inject=1), F("klist", "fl,fle,fleby,get,o_pred,o_rb", sizes="9,17,33,40", inject=1), M("maptree", 5, INJ_M, inject=1), M("settree", 5, INJ_M, inject=1), M("maptree", 4, MA + ",o_ref,o_handle,o_rb,o_arena", inject=2), M("settree", 4, MA + ",o_ref,o_handle,o_rb,o_arena", inject=2),
                 M("maplist", 5, INJ_M, inject=2), M("setlist", 5, INJ_M, inject=2), M("maptree", 4, INJ_M, pay="heap", inject=1),
                 K("ktree", 3, 3, INJ_K, inject=1), K("ktree", 3, 2, INJ_K, inject=2, cap_s=1200), K("klist", 3, 3, INJ_K, inject=2), K("ktree", 8, 0, "fleby,clear,o_pred,o_rb,o_arena", mode="shape", inject=1, cap_s=900),
                 S(0, 31, SA + ",o_query,o_struct", inject=2, cap_s=1200), S(-7, 92, SA + ",o_query,o_struct", inject=1), S(0, 16, SA + ",o_query,o_struct", inject=1)],
}
ALL_M = MAW + ",o_ref,o_handle,o_neigh,o_hstab"
ALL_K = KA + ",o_pred,o_get,o_export"
SPECS["C10"] = {
    "quick": [SW("bigk", sys="klist", label="bigk klist<u32 keys>: the same 864 histories on the sorted-list twin"), SW("bigk", sys="ktree", label="bigk ktree<u32 keys>: 864 long histories on expiring trees of 127 ... 4000 entries, hints 0/8/9/128/256/1000: three insert waves through expired never-queried entries, re-insertion, every lookup, export"), SW("bigtree", sys="settree", sizes="500,1023,1024,1025,3000,10000", label="bigtree settree<u32,u32>: 450+ long histories on trees of 500 ... 10000 (thorough 65537) entries, hints 0/1/8/9/1025: fill, thin out to 0/1/10/50/100 %, clear, refill with twice as many, drain"), SW("bigtree", sys="maptree", sizes="500,1023,1024,1025,3000,10000", label="bigtree maptree<u32,u32>: 450+ long histories on trees of 500 ... 10000 (thorough 65537) entries, hints 0/1/8/9/1025: fill, thin out to 0/1/10/50/100 %, clear, refill with twice as many, drain"), F("maptree", ALL_M, crash=1, sparse=1), F("settree", ALL_M, crash=1, sparse=1), M("maptree", 3, ALL_M, crash=1, hint=1000), M("settree", 3, ALL_M, crash=1, hint=1000), K("ktree", 3, 2, ALL_K, crash=1, hint=1000), M("maptree", 3, ALL_M, crash=1, quq=2), M("settree", 3, ALL_M, crash=1, quq=2), K("ktree", 2, 2, ALL_K, crash=1, quq=2), M("maptree", 4, ALL_M, crash=1, pay="track"), M("settree", 4, ALL_M, crash=1, pay="track"), FS(0, 31, "o_query", crash=1), FS(-1000, 3095, "o_query", crash=1), K("ktree", 3, 3, ALL_K, crash=1, tbase=252), K("klist", 3, 3, ALL_K, crash=1, tbase=252), F("maptree", ALL_M, crash=1), F("settree", ALL_M, crash=1), F("ktree", "fl,fle,fleby,get,o_pred,o_get,o_export", crash=1), K("ktree", 3, 3, ALL_K, crash=1, tbase=251), K("klist", 3, 3, ALL_K, crash=1, tbase=251), K("ktree", 4, 2, ALL_K, crash=1), M("maptree", 5, ALL_M, crash=1), M("settree", 5, ALL_M, crash=1), M("maplist", 5, ALL_M, crash=1), M("setlist", 5, ALL_M, crash=1),
              M("maptree", 4, ALL_M, crash=1, hint=0, pay="heap"), M("settree", 4, ALL_M, crash=1, hint=1, pay="bare"), M("maptree", 10, "del,delh,clear,o_handle", mode="shape", crash=1, hint=9), M("settree", 10, "del,delh,clear,o_neigh", mode="shape", crash=1, hint=9), M("settree", 3, ALL_M, crash=1, hint=64),
              K("ktree", 3, 3, ALL_K, crash=1), K("klist", 3, 3, ALL_K, crash=1), K("ktree", 3, 2, ALL_K, crash=1, hint=0), K("ktree", 3, 2, ALL_K, crash=1, hint=64), K("ktree", 8, 0, "fleby,get,clear,o_export", mode="shape", crash=1, hint=9),
              S(0, 16, SA + ",o_query", crash=1), S(0, 31, SA + ",o_query", crash=1), S(-7, 92, SA + ",o_query", crash=1), S(-(1 << 31), (1 << 31) - 1, SA + ",o_query", crash=1),
              SW("layout", lmax=600, all_coords=600, label="layout sweep (constructor and edge coordinates, process outcome only)"), SW("dpairs", lo=0, hi=128, label="all insert x query range pairs on [0,128] (process outcome)"),
              SW("niche", type="key", label="KeyExpTree::new with a key type that has no all-zero value"), SW("niche", type="val", label="KeyExpTree::new with a value type that has no all-zero value"), SW("niche", type="list", label="KeyExpList with the same key type")],
    "thorough": [SW("bigk", sys="klist", label="bigk klist<u32 keys>: the same 864 histories on the sorted-list twin"), SW("bigk", sys="ktree", label="bigk ktree<u32 keys>: 864 long histories on expiring trees of 127 ... 4000 entries, hints 0/8/9/128/256/1000: three insert waves through expired never-queried entries, re-insertion, every lookup, export"), SW("bigtree", sys="maptree", sizes="262145", label="bigtree maptree<u32,u32>: 262145 entries"), SW("export-sizes", kmax=12, grow=70000, as_gb=8, label="expiring tree / list: growth steps above 65536 slots"), SW("bigtree", sys="settree", sizes="500,1023,1024,1025,3000,10000,65537", label="bigtree settree<u32,u32>: 450+ long histories on trees of 500 ... 10000 (thorough 65537) entries, hints 0/1/8/9/1025: fill, thin out to 0/1/10/50/100 %, clear, refill with twice as many, drain"), SW("bigtree", sys="maptree", sizes="500,1023,1024,1025,3000,10000,65537", label="bigtree maptree<u32,u32>: 450+ long histories on trees of 500 ... 10000 (thorough 65537) entries, hints 0/1/8/9/1025: fill, thin out to 0/1/10/50/100 %, clear, refill with twice as many, drain"), F("maptree", ALL_M, crash=1, sparse=1), F("settree", ALL_M, crash=1, sparse=1), M("maptree", 3, ALL_M, crash=1, hint=1000), M("settree", 3, ALL_M, crash=1, hint=1000), K("ktree", 3, 2, ALL_K, crash=1, hint=1000), M("maptree", 14, "del,delh,clear,o_handle", mode="shape", crash=1, cap_s=1500), M("settree", 14, "del,delh,clear,o_neigh", mode="shape", crash=1, hint=9, cap_s=1500), M("maptree", 3, ALL_M, crash=1, quq=2), M("settree", 3, ALL_M, crash=1, quq=2), K("ktree", 2, 2, ALL_K, crash=1, quq=2), M("maptree", 4, ALL_M, crash=1, pay="track"), M("settree", 4, ALL_M, crash=1, pay="track"), FS(0, 31, "o_query", crash=1), FS(-1000, 3095, "o_query", crash=1), K("ktree", 3, 3, ALL_K, crash=1, tbase=252), K("klist", 3, 3, ALL_K, crash=1, tbase=252), F("maptree", ALL_M, crash=1), F("settree", ALL_M, crash=1), F("ktree", "fl,fle,fleby,get,o_pred,o_get,o_export", crash=1), M("maptree", 7, MA + ",o_ref,o_handle,o_hstab", crash=1), M("settree", 7, MA + ",o_ref,o_handle,o_neigh,o_hstab", crash=1), M("maplist", 7, ALL_M, crash=1), M("setlist", 7, ALL_M, crash=1),
                 M("maptree", 5, ALL_M, crash=1, hint=0, pay="heap"), M("settree", 6, ALL_M, crash=1, hint=1, pay="bare"), M("maptree", 12, "del,delh,clear,o_handle", mode="shape", crash=1, hint=9), M("settree", 12, "del,delh,clear,o_neigh", mode="shape", crash=1, hint=9), M("settree", 5, ALL_M, crash=1, hint=64),
                 K("ktree", 4, 4, ALL_K, crash=1, cap_s=1200), K("klist", 4, 4, ALL_K, crash=1), K("ktree", 4, 3, ALL_K, crash=1, hint=0), K("ktree", 3, 3, ALL_K, crash=1, mode="full"), K("ktree", 9, 1, "fleby,get,clear,o_export", mode="shape", crash=1, hint=9, cap_s=900),
                 ] + [S(lo, hi, SA + ",o_query", crash=1) for (lo, hi) in DOMAINS_T] + [S(0, (1 << 32) - 1, SA + ",o_query", crash=1, coord="u32"), S(-(1 << 40), (1 << 40) + 5, SA + ",o_query", crash=1, coord="i64"),
                 SW("layout", lmax=20000, all_coords=1200, label="layout sweep (constructor and edge coordinates, process outcome only)"), SW("export-sizes", kmax=17, as_gb=8, label="export size family (process outcome)"),
                 SW("niche", type="key", label="KeyExpTree::new with a key type that has no all-zero value"), SW("niche", type="val", label="KeyExpTree::new with a value type that has no all-zero value"), SW("niche", type="list", label="KeyExpList with the same key type")],
}

# --- internal: one pass with every oracle on, used only by seeded/mutate.py to triage automatically generated
# mutants quickly (never listed in MANIFEST.json; violations are filed under the pseudo id "ALL")
EVERY_M = MAW + ",o_ref,o_handle,o_neigh,o_rb,o_arena,o_hstab,o_twin,o_pos"
EVERY_K = KA + ",o_pred,o_get,o_export,o_cap,o_log,o_rb,o_arena,o_twin"
EVERY_S = SA + ",o_query,o_purge,o_struct,o_twin"
TRIAGE = {
    "quick": [M("maptree", 5, EVERY_M), M("settree", 5, EVERY_M), M("maplist", 5, EVERY_M.replace(",o_hstab", "")), M("setlist", 5, EVERY_M.replace(",o_hstab", "")),
              M("maptree", 4, EVERY_M, pay="track", hint=0), M("settree", 4, EVERY_M, pay="track", hint=1),
              M("maptree", 10, "del,delh,clear,o_ref,o_handle,o_rb,o_arena,o_hstab", mode="shape", hint=9), M("settree", 10, "del,delh,clear,o_ref,o_handle,o_neigh,o_rb,o_arena,o_hstab", mode="shape"),
              F("maptree", EVERY_M), F("settree", EVERY_M, hint=9), F("maplist", EVERY_M.replace(",o_hstab", ""), sizes="9,17,33,65"), F("setlist", EVERY_M.replace(",o_hstab", ""), sizes="9,17,33,65"),
              K("ktree", 3, 3, EVERY_K), K("klist", 3, 3, EVERY_K), K("ktree", 4, 2, EVERY_K), K("ktree", 3, 3, EVERY_K, tbase=252), K("klist", 3, 3, EVERY_K, tbase=252), K("ktree", 3, 3, EVERY_K, audit=1),
              K("ktree", 8, 0, "fleby,get,clear,o_pred,o_get,o_export,o_cap,o_log,o_rb,o_arena", mode="shape"), F("ktree", "fl,fle,fleby,get,o_pred,o_get,o_export,o_cap,o_log,o_rb,o_arena,o_twin"), F("klist", "fl,fle,fleby,get,o_pred,o_get,o_export,o_cap,o_log,o_rb,o_twin"),
              S(0, 31, EVERY_S), S(-7, 92, EVERY_S), S(0, 16, EVERY_S), S(-(1 << 40), (1 << 40) + 5, EVERY_S, coord="i64"), FS(0, 31, "o_query,o_purge,o_struct,o_twin"), FS(-7, 92, "o_query,o_purge,o_struct,o_twin"),
              SW("pairs", "o_place,sequential", emax=2, t=2), SW("dpairs", lo=-7, hi=92), SW("dpairs", lo=0, hi=128), SW("purge", "subranges"), SW("layout", lmax=700, all_coords=700), SW("export-sizes", kmax=12, as_gb=6),
              M("maptree", 4, INJ_M, inject=1), M("settree", 4, INJ_M, inject=1), M("setlist", 4, INJ_M, inject=1), K("ktree", 3, 2, INJ_K, inject=1), K("klist", 3, 2, INJ_K, inject=1), S(0, 31, SA + ",o_query,o_struct", inject=1),
              FS(0, 31, "o_query,o_struct", inject=1), F("ktree", "fl,fle,fleby,get,o_pred,o_rb,o_arena", sizes="9,16,17", inject=1)],
    "thorough": [],
}

def _grp(pred):
    return {"quick": [r for r in TRIAGE["quick"] if pred(" ".join(r["args"]))], "thorough": []}


TRIAGE_GROUPS = {
    "map": _grp(lambda a: "maptree" in a),
    "set": _grp(lambda a: "settree" in a),
    "key": _grp(lambda a: "ktree" in a or "export-sizes" in a),
    "list": _grp(lambda a: "maplist" in a or "setlist" in a or "klist" in a or "export-sizes" in a),
    "seg": _grp(lambda a: "--sys seg" in a or a.startswith("sweep --kind pairs") or "dpairs" in a or "purge" in a or "layout" in a),
}

LEVEL = {p: "model_checking" for p in SPECS}

RULES = {
    "default": "breadth-first enumeration to a fixpoint of every history the alphabet produces over the stated universe (N keys / T time steps / population bound), "
               "each transition executed on the real code; a state is distinct by the fingerprint of its canonical form; non-trivial = at least two entries physically stored "
               "(segment tree: at least one stored copy); finite sweeps enumerate every case of their family once",
}
ASSUMPTIONS = {
    "default": [
        "bounds: claims hold for the universes listed under coverage.runs (keys, times, populations, domains); nothing is sampled and nothing is claimed beyond them",
        "states are merged on 128-bit fingerprints (two keyed SipHash passes) of the canonical state; a collision (odds < 1e-24 at these sizes) could hide a state",
        "canonical mode 'live' assumes no operation reads a freed arena slot before overwriting it, 'shape' assumes equivariance under renaming of arena slots; both are cross-checked by the 'full' runs on smaller universes (export, which does read stale slots, is evaluated on every transition arrival)",
        "build: release profile with debug assertions, overflow checks and the standard library's unsafe-precondition checks enabled",
    ],
    "C19": ["'small constant multiple' is read as capacity <= 8*n + 64 (n = entries physically stored before the export)"],
    "C11": ["growth bound used: buffer length <= 8*(N+1) + max(hint, 8) for a universe of N keys"],
    "C18": ["fault alphabet: one panic at the i-th invocation of Ord::cmp / PartialOrd::partial_cmp / PartialEq::eq / comparator closure / KeyValue::key / expiration(); Clone, Default and From<R> are not injected"],
    "C10": ["outcomes are observed in the checked build only; the key/value type alphabet is the handful instantiated by the harness"],
}
