//! itree-mc: explicit-state model checker driving the real i_tree implementation.
//!
//!   itree-mc bfs   --sys <subject> [--pay u16|heap|bare] --prop Cxx --n N [--t T] --mode live|full|shape
//!                  --hint H --flags a,b,c [--inject K] [--threads N] [--max-states N] [--max-secs S] --out FILE
//!   itree-mc sweep --kind <name> --prop Cxx [...] --out FILE
//!   itree-mc replay FILE
//!
//! Exit status: 0 no violation, 1 violation(s) (each printed as a VIOLATION line), 2 machinery error.

mod engine;
mod family;
mod inv;
mod json;
mod ksys;
mod msys;
mod pair;
mod rt;
mod ssys;
mod sweeps;

use engine::{Config, Report, System};
use std::collections::HashMap;

pub struct Args {
    pub cmd: String,
    pub kv: HashMap<String, String>,
    pub raw: Vec<String>,
}
impl Args {
    pub fn get(&self, k: &str) -> Option<&str> {
        self.kv.get(k).map(|s| s.as_str())
    }
    pub fn num(&self, k: &str, d: u64) -> u64 {
        self.get(k).map(|s| s.parse().unwrap_or_else(|_| die(&format!("bad number for --{k}")))).unwrap_or(d)
    }
    pub fn inum(&self, k: &str, d: i64) -> i64 {
        self.get(k).map(|s| s.parse().unwrap_or_else(|_| die(&format!("bad number for --{k}")))).unwrap_or(d)
    }
    pub fn flag(&self, f: &str) -> bool {
        self.get("flags").map(|s| s.split(',').any(|x| x == f)).unwrap_or(false)
    }
    pub fn prop(&self) -> &'static str {
        let p = self.get("prop").unwrap_or("C10").to_string();
        Box::leak(p.into_boxed_str())
    }
}

pub fn die(msg: &str) -> ! {
    eprintln!("itree-mc: {msg}");
    std::process::exit(2)
}

fn parse_args(v: &[String]) -> Args {
    let mut kv = HashMap::new();
    let mut i = 1;
    while i < v.len() {
        if let Some(k) = v[i].strip_prefix("--") {
            let val = v.get(i + 1).cloned().unwrap_or_default();
            kv.insert(k.to_string(), val);
            i += 2;
        } else {
            kv.insert("_pos".to_string(), v[i].clone());
            i += 1;
        }
    }
    Args { cmd: v.first().cloned().unwrap_or_default(), kv, raw: v.to_vec() }
}

pub fn config(a: &Args) -> Config {
    if a.num("crash-only", 0) > 0 {
        engine::CRASH_ONLY.store(true, std::sync::atomic::Ordering::Relaxed);
    }
    Config {
        threads: a.num("threads", 16) as usize,
        max_states: a.num("max-states", 60_000_000),
        max_secs: a.num("max-secs", 3600),
        max_depth: a.num("max-depth", 100_000) as u32,
        inject: a.num("inject", 0) > 0,
        hang_secs: a.num("hang-secs", 20),
        max_viol_sigs: a.num("max-viol-sigs", 64) as usize,
        grace_secs: a.num("grace-secs", 3),
        audit: a.num("audit", 0) > 0,
        deep: a.num("deep", 0) as u32,
        quq: a.num("quq", 0) as u32,
        quq_tail: a.num("quq-tail", 1) as u32,
        raw: a.num("raw", 0) as u32,
        quq_cs: a.num("quq-cs", 0) as u32,
    }
}

pub fn register<S: System>(sys: &S, a: &Args)
where
    S: 'static,
{
    // The hook needs to print steps; the formatter of a system depends only on its type-level
    // configuration, so a leaked reference is fine for the life of the process.
    let name = sys.name();
    let sref: &'static S = unsafe { &*(sys as *const S) };
    let _ = rt::RUN.set(rt::RunInfo {
        prop: a.prop().to_string(),
        sys_args: a.raw.clone(),
        sys_name: name,
        fmt_step: Box::new(move |s| if s == engine::OBSERVE_MARK { "Observe()".to_string() } else { sref.fmt_step(engine::Step::dec(s)) }),
        replay_dir: a.get("replay-dir").unwrap_or("/verif/replays").to_string(),
    });
}

pub fn finish(rep: Report, a: &Args) -> ! {
    let js = rep.to_json();
    if let Some(out) = a.get("out") {
        if let Err(e) = std::fs::write(out, &js) {
            die(&format!("cannot write {out}: {e}"));
        }
    } else {
        println!("{js}");
    }
    eprintln!(
        "[{}] states={} transitions={} injections={} depth={} exhaustive={} violations={} wall={:.2}s {}",
        rep.system,
        rep.states,
        rep.transitions,
        rep.injections,
        rep.levels.len().saturating_sub(1),
        rep.exhaustive,
        rep.violations.len(),
        rep.wall_s,
        rep.cap
    );
    if let Some(e) = &rep.machinery_error {
        eprintln!("MACHINERY ERROR: {e}");
        std::process::exit(2);
    }
    for v in &rep.violations {
        rt::print_line(&format!("FOUND signature={} count={} message={}", v.sig, v.count, v.msg.replace('\n', " ")));
        rt::print_line(&format!("VIOLATION property={} replay={}", v.prop, v.replay));
    }
    std::process::exit(if rep.violations.is_empty() { 0 } else { 1 })
}

pub fn run_bfs<S: System + 'static>(sys: S, a: &Args) -> ! {
    let sys: &'static S = Box::leak(Box::new(sys));
    register(sys, a);
    let rep = engine::explore(sys, &config(a));
    finish(rep, a)
}

pub fn run_family<S: System + 'static>(sys: S, a: &Args, hists: Vec<Vec<String>>) -> ! {
    if let Some(w) = a.get("inject-window") {
        let (lo, hi) = w.split_once(':').unwrap_or_else(|| die("--inject-window lo:hi"));
        let _ = engine::INJECT_WINDOW.set((lo.parse().unwrap_or(0), hi.parse().unwrap_or(usize::MAX)));
    }
    let sys: &'static S = Box::leak(Box::new(sys));
    register(sys, a);
    let rep = engine::run_histories(sys, &hists, a.num("threads", 16) as usize, a.num("inject", 0) > 0, a.num("sparse", 0) > 0);
    finish(rep, a)
}

pub fn family_sizes(a: &Args) -> Vec<usize> {
    match a.get("sizes") {
        Some(s) => s.split(',').filter_map(|x| x.parse().ok()).collect(),
        None => family::SIZES.to_vec(),
    }
}

pub fn run_replay<S: System + 'static>(sys: S, a: &Args, hist: &[String], want_sig: &str) -> ! {
    let sys: &'static S = Box::leak(Box::new(sys));
    register(sys, a);
    let mut outcomes = vec![];
    for round in 0..2 {
        match engine::replay(sys, hist) {
            Ok(found) => {
                eprintln!("replay run {}: {} violation(s)", round + 1, found.len());
                for (p, sig, msg) in &found {
                    eprintln!("   property={p} signature={sig} message={msg}");
                }
                outcomes.push(found);
            }
            Err(e) => die(&format!("replay failed: {e}")),
        }
    }
    if outcomes[0] != outcomes[1] {
        eprintln!("MACHINERY ERROR: two replays of the same history observed different things");
        std::process::exit(2);
    }
    let hit = outcomes[0].iter().any(|(_, sig, _)| want_sig.is_empty() || sig == want_sig);
    if hit {
        println!("REPRODUCED signature={want_sig}");
        std::process::exit(1);
    }
    println!("NOT-REPRODUCED signature={want_sig}");
    std::process::exit(0)
}

fn main() {
    rt::install_panic_hook();
    let argv: Vec<String> = std::env::args().skip(1).collect();
    if argv.is_empty() {
        die("usage: itree-mc bfs|sweep|replay ...");
    }
    let a = parse_args(&argv);
    match a.cmd.as_str() {
        "bfs" | "family" => dispatch(&a, None),
        "sweep" => sweeps::dispatch(&a),
        "replay" => {
            let file = a.get("_pos").unwrap_or_else(|| die("replay needs a file"));
            let txt = std::fs::read_to_string(file).unwrap_or_else(|e| die(&format!("{file}: {e}")));
            let v = json::parse(&txt).unwrap_or_else(|e| die(&format!("{file}: {e}")));
            let sys_args = v.get("sys_args").map(|x| x.as_strs()).unwrap_or_default();
            let hist = v.get("history").map(|x| x.as_strs()).unwrap_or_default();
            let sig = v.get("signature").and_then(|x| x.as_str()).unwrap_or("").to_string();
            if sys_args.is_empty() {
                die("replay file has no sys_args");
            }
            let mut a2 = parse_args(&sys_args);
            a2.kv.insert("replay-dir".into(), a.get("replay-dir").unwrap_or("/verif/target/replays-tmp").to_string());
            match a2.cmd.as_str() {
                "bfs" | "family" => dispatch(&a2, Some((hist, sig))),
                "sweep" => sweeps::dispatch(&a2),
                _ => die("replay file: unknown command"),
            }
        }
        _ => die("unknown command"),
    }
}

fn dispatch(a: &Args, replay: Option<(Vec<String>, String)>) -> ! {
    // process-outcome-only mode applies to searches, families and replays alike (it used to be switched on
    // by the search configuration only, so `family ... --crash-only 1` ran with the functional oracles on)
    if a.num("crash-only", 0) > 0 {
        engine::CRASH_ONLY.store(true, std::sync::atomic::Ordering::Relaxed);
    }
    let sys = a.get("sys").unwrap_or_else(|| die("--sys required")).to_string();
    macro_rules! go {
        ($s:expr) => {{
            let s = $s;
            match &replay {
                None if a.cmd == "family" => {
                    let tmax = a.num("t", 5) as usize;
                    let mut hs = family::k_histories(&family_sizes(a), tmax);
                    hs.extend(family::k_histories_waves(&family_sizes(a), tmax));
                    run_family(s, a, hs)
                }
                None => run_bfs(s, a),
                Some((h, sig)) => run_replay(s, a, h, sig),
            }
        }};
    }
    macro_rules! gok {
        ($t:ty) => {{
            if a.num("pair", 0) > 0 {
                let s1 = ksys::make::<$t>(a);
                let mut s2 = ksys::make::<$t>(a);
                s2.hint = a.num("hint2", s1.hint as u64) as usize;
                let symmetric = s2.hint == s1.hint;
                let p = pair::PairSys { a: s1, b: s2, symmetric, deep_queries: a.num("pair-deep-queries", 0) > 0 };
                match &replay {
                    None => run_bfs(p, a),
                    Some((h, sig)) => run_replay(p, a, h, sig),
                }
            } else {
                go!(ksys::make::<$t>(a))
            }
        }};
    }
    match sys.as_str() {
        "maptree" | "maplist" | "settree" | "setlist" => msys_dispatch(a, &sys, replay),
        "ktree" if a.num("pair", 0) > 0 => gok!(ksys::KT),
        "klist" if a.num("pair", 0) > 0 => gok!(ksys::KL),
        "ktree" => go!(ksys::make::<ksys::KT>(a)),
        "klist" => go!(ksys::make::<ksys::KL>(a)),
        "ktreew" => go!(ksys::make::<ksys::KTW>(a)),
        "klistw" => go!(ksys::make::<ksys::KLW>(a)),
        "seg" => ssys::dispatch(a, replay),
        _ => die("unknown --sys"),
    }
}

fn msys_dispatch(a: &Args, sys: &str, replay: Option<(Vec<String>, String)>) -> ! {
    use i_tree::map::list::MapList;
    use i_tree::map::tree::MapTree;
    use i_tree::set::list::SetList;
    use i_tree::set::tree::SetTree;
    use msys::{FaultVal, HeapVal, IKey, MFlags, MSys, SVal, TrackVal, WideVal};
    let f = MFlags {
        wr: a.flag("wr"),
        delh: a.flag("delh"),
        del: a.flag("del"),
        clear: a.flag("clear"),
        qops: a.flag("qops"),
        o_ref: a.flag("o_ref"),
        o_handle: a.flag("o_handle"),
        o_neigh: a.flag("o_neigh"),
        o_rb: a.flag("o_rb"),
        o_arena: a.flag("o_arena"),
        o_hstab: a.flag("o_hstab"),
        o_twin: a.flag("o_twin"),
        o_pos: a.flag("o_pos"),
        histogram: a.flag("histogram"),
    };
    let n = a.num("n", 3) as u8;
    let hint = a.num("hint", 8) as usize;
    let mode = inv::Mode::parse(a.get("mode").unwrap_or("live")).unwrap_or_else(|| die("bad --mode"));
    let prop = a.prop();
    let inj = a.num("inject", 0) as u32;
    macro_rules! go {
        ($t:ty) => {{
            if a.num("pair", 0) > 0 {
                let hint2 = a.num("hint2", hint as u64) as usize;
                let s1: MSys<$t> = MSys { n, hint, mode, f: f.clone(), prop, inj_budget: inj, _p: Default::default() };
                let s2: MSys<$t> = MSys { n, hint: hint2, mode, f: f.clone(), prop, inj_budget: inj, _p: Default::default() };
                let p = pair::PairSys { a: s1, b: s2, symmetric: hint2 == hint, deep_queries: a.num("pair-deep-queries", 0) > 0 };
                match &replay {
                    None => run_bfs(p, a),
                    Some((h, sig)) => run_replay(p, a, h, sig),
                }
            }
            let s: MSys<$t> = MSys { n, hint, mode, f, prop, inj_budget: inj, _p: Default::default() };
            match &replay {
                None if a.cmd == "family" && a.num("sparse", 0) > 0 => run_family(s, a, family::m_histories_queries(&family_sizes(a), sys.starts_with("set"))),
                None if a.cmd == "family" => run_family(s, a, family::m_histories(&family_sizes(a))),
                None => run_bfs(s, a),
                Some((h, sig)) => run_replay(s, a, h, sig),
            }
        }};
    }
    let pay = a.get("pay").unwrap_or("u16");
    match (sys, pay) {
        ("maptree", "u16") => go!(MapTree<IKey, u16>),
        ("maptree", "heap") => go!(MapTree<IKey, HeapVal>),
        ("maptree", "track") => go!(MapTree<IKey, TrackVal>),
        ("settree", "track") => go!(SetTree<IKey, SVal<TrackVal>>),
        ("maplist", "track") => go!(MapList<IKey, TrackVal>),
        ("setlist", "track") => go!(SetList<SVal<TrackVal>>),
        ("maplist", "u16") => go!(MapList<IKey, u16>),
        ("maplist", "heap") => go!(MapList<IKey, HeapVal>),
        ("settree", "u16") => go!(SetTree<IKey, SVal<u16>>),
        ("settree", "heap") => go!(SetTree<IKey, SVal<HeapVal>>),
        ("settree", "bare") => go!(SetTree<u8, u8>),
        ("maptree", "wide") => go!(MapTree<IKey, WideVal>),
        ("settree", "wide") => go!(SetTree<IKey, SVal<WideVal>>),
        ("maplist", "wide") => go!(MapList<IKey, WideVal>),
        ("setlist", "wide") => go!(SetList<SVal<WideVal>>),
        ("maptree", "fault") => go!(MapTree<IKey, FaultVal>),
        ("settree", "fault") => go!(SetTree<IKey, SVal<FaultVal>>),
        ("maplist", "fault") => go!(MapList<IKey, FaultVal>),
        ("setlist", "fault") => go!(SetList<SVal<FaultVal>>),
        ("setlist", "u16") => go!(SetList<SVal<u16>>),
        ("setlist", "heap") => go!(SetList<SVal<HeapVal>>),
        _ => die("unsupported --sys/--pay combination"),
    }
}
