//! Runtime plumbing shared by all explorers: callback instrumentation (counting,
//! fault injection, argument log), worker slots readable by the panic hook and the
//! watchdog, the panic hook itself, and the guarded call helper.

use std::any::Any;
use std::cell::{Cell, RefCell};
use std::panic::{self, AssertUnwindSafe};
use std::sync::atomic::{AtomicBool, AtomicU64, AtomicUsize, Ordering};
use std::sync::{Mutex, OnceLock};

// ---------------------------------------------------------------------------
// callback instrumentation
// ---------------------------------------------------------------------------

/// Marker payload of an injected callback panic.
pub struct InjectedPanic;
/// Marker payload: one operation invoked an absurd number of user callbacks (a loop that never ends
/// but keeps calling the caller's comparison; found long before the wall-clock watchdog would fire).
pub struct CallbackBudget;
pub const CALLBACK_BUDGET: u32 = 20_000_000;

#[derive(Clone, Copy, Debug, PartialEq, Eq)]
pub struct LoggedKey {
    pub id: u8,
    pub exp: u8,
    pub tag: u8,
}

thread_local! {
    static CB_COUNT: Cell<u32> = const { Cell::new(0) };
    static CB_INJECT: Cell<u32> = const { Cell::new(u32::MAX) };
    static CB_LOG_ON: Cell<bool> = const { Cell::new(false) };
    static CB_LOG: RefCell<Vec<LoggedKey>> = const { RefCell::new(Vec::new()) };
    static WORKER: Cell<usize> = const { Cell::new(usize::MAX) };
    static LAST_PANIC: RefCell<String> = const { RefCell::new(String::new()) };
    static GUARD_DEPTH: Cell<u32> = const { Cell::new(0) };
}

/// Called by every instrumented user callback (cmp, partial_cmp, eq, closure,
/// key(), expiration()).  Counts the invocation and panics if it is the armed one.
#[inline]
pub fn callback() {
    CB_COUNT.with(|c| {
        let n = c.get();
        if n >= CALLBACK_BUDGET {
            c.set(0);
            panic::panic_any(CallbackBudget);
        }
        c.set(n + 1);
        if n == CB_INJECT.with(|i| i.get()) {
            CB_INJECT.with(|i| i.set(u32::MAX));
            panic::panic_any(InjectedPanic);
        }
    });
}

#[inline]
pub fn log_key(k: LoggedKey) {
    if CB_LOG_ON.with(|c| c.get()) {
        CB_LOG.with(|l| l.borrow_mut().push(k));
    }
}

pub fn cb_reset(inject_at: Option<u32>) {
    CB_COUNT.with(|c| c.set(0));
    CB_INJECT.with(|c| c.set(inject_at.unwrap_or(u32::MAX)));
}
pub fn cb_disarm() {
    CB_INJECT.with(|c| c.set(u32::MAX));
}
pub fn cb_count() -> u32 {
    CB_COUNT.with(|c| c.get())
}
pub fn log_start() {
    CB_LOG.with(|l| l.borrow_mut().clear());
    CB_LOG_ON.with(|c| c.set(true));
}
pub fn log_stop() -> Vec<LoggedKey> {
    CB_LOG_ON.with(|c| c.set(false));
    CB_LOG.with(|l| std::mem::take(&mut *l.borrow_mut()))
}

// ---------------------------------------------------------------------------
// worker slots (history of the operation in flight, heartbeat)
// ---------------------------------------------------------------------------

pub const MAX_WORKERS: usize = 64;
pub const MAX_HIST: usize = 1024;

pub struct WorkerSlot {
    pub busy: AtomicBool,
    pub beat: AtomicU64,
    pub len: AtomicUsize,
    pub hist: Vec<AtomicU64>,
}

pub static SLOTS: OnceLock<Vec<WorkerSlot>> = OnceLock::new();

pub fn slots() -> &'static Vec<WorkerSlot> {
    SLOTS.get_or_init(|| {
        (0..MAX_WORKERS)
            .map(|_| WorkerSlot {
                busy: AtomicBool::new(false),
                beat: AtomicU64::new(0),
                len: AtomicUsize::new(0),
                hist: (0..MAX_HIST).map(|_| AtomicU64::new(0)).collect(),
            })
            .collect()
    })
}

pub fn set_worker(i: usize) {
    WORKER.with(|w| w.set(i));
}
fn my_slot() -> Option<&'static WorkerSlot> {
    let w = WORKER.with(|w| w.get());
    if w == usize::MAX { None } else { Some(&slots()[w]) }
}
/// Forget the history in flight (start of a rebuild).
#[inline]
pub fn hist_reset() {
    if let Some(s) = my_slot() {
        s.len.store(0, Ordering::Relaxed);
        s.beat.fetch_add(1, Ordering::Relaxed);
        s.busy.store(true, Ordering::Relaxed);
    }
}
/// Record that `step` is about to be executed.
#[inline]
pub fn hist_push(step: u64) {
    // a new operation starts: the callback budget (hang detector) is per operation
    CB_COUNT.with(|c| c.set(0));
    if let Some(s) = my_slot() {
        let n = s.len.load(Ordering::Relaxed);
        if n < MAX_HIST {
            s.hist[n].store(step, Ordering::Relaxed);
        }
        s.len.store(n + 1, Ordering::Relaxed);
        s.beat.fetch_add(1, Ordering::Relaxed);
    }
}
pub fn hist_idle() {
    if let Some(s) = my_slot() {
        s.busy.store(false, Ordering::Relaxed);
    }
}
pub fn slot_history(s: &WorkerSlot) -> Vec<u64> {
    let n = s.len.load(Ordering::Relaxed).min(MAX_HIST);
    (0..n).map(|i| s.hist[i].load(Ordering::Relaxed)).collect()
}
pub fn my_history() -> Vec<u64> {
    my_slot().map(slot_history).unwrap_or_default()
}

// ---------------------------------------------------------------------------
// run context visible to the hook: who are we, how to print steps, where to write
// ---------------------------------------------------------------------------

pub struct RunInfo {
    pub prop: String,
    pub sys_args: Vec<String>,
    pub sys_name: String,
    pub fmt_step: Box<dyn Fn(u64) -> String + Send + Sync>,
    pub replay_dir: String,
}
pub static RUN: OnceLock<RunInfo> = OnceLock::new();
static REPLAY_SEQ: AtomicUsize = AtomicUsize::new(0);
static PRINT_LOCK: Mutex<()> = Mutex::new(());

pub fn fmt_hist(h: &[u64]) -> Vec<String> {
    match RUN.get() {
        Some(r) => h.iter().map(|&s| (r.fmt_step)(s)).collect(),
        None => h.iter().map(|s| format!("{s:#x}")).collect(),
    }
}

fn fnv(s: &str) -> u64 {
    let mut h = 0xcbf29ce484222325u64;
    for b in s.bytes() {
        h ^= b as u64;
        h = h.wrapping_mul(0x100000001b3);
    }
    h
}

/// Write a replay artefact and return its path.
pub fn write_replay(prop: &str, sig: &str, msg: &str, hist: &[String], extra: &str) -> String {
    let (dir, sys_args, sys_name) = match RUN.get() {
        Some(r) => (r.replay_dir.clone(), r.sys_args.clone(), r.sys_name.clone()),
        None => ("/verif/replays".to_string(), vec![], String::new()),
    };
    let _ = std::fs::create_dir_all(&dir);
    let digest = fnv(&format!("{sig}|{}|{}", hist.join(","), sys_args.join(" ")));
    let path = format!("{dir}/{prop}-{digest:016x}.json");
    let _ = REPLAY_SEQ.fetch_add(1, Ordering::Relaxed);
    let mut j = crate::json::Obj::new();
    j.str("property_id", prop);
    j.str("signature", sig);
    j.str("message", msg);
    j.str("system", &sys_name);
    j.strs("sys_args", &sys_args);
    j.strs("history", hist);
    if !extra.is_empty() {
        j.str("extra", extra);
    }
    j.str(
        "how_to_replay",
        "cd /verif && ./check replay <this file>   (re-executes the history on a fresh object, without the explorer)",
    );
    let _ = std::fs::write(&path, j.finish());
    path
}

pub fn print_line(s: &str) {
    let _g = PRINT_LOCK.lock();
    println!("{s}");
    use std::io::Write;
    let _ = std::io::stdout().flush();
}

// ---------------------------------------------------------------------------
// panic hook
// ---------------------------------------------------------------------------

extern "C" {
    fn signal(signum: i32, handler: usize) -> usize;
}
static IN_ABORT: AtomicBool = AtomicBool::new(false);

/// SIGABRT handler: the process is about to die (non-unwinding panic such as a failed
/// unsafe-precondition check, stack overflow, double panic).  This is the only chance to
/// name the history in flight; it runs on the aborting thread.
extern "C" fn on_abort(_sig: i32) {
    if IN_ABORT.swap(true, Ordering::SeqCst) {
        // another thread is already reporting; returning would let abort() kill the process
        // before that report is written, so park here (the reporting thread ends the process)
        loop {
            std::thread::sleep(std::time::Duration::from_secs(1));
        }
    }
    let full = last_panic();
    let full = if full.is_empty() { "process abort without a panic message (stack overflow or allocation failure?)".to_string() } else { full };
    let hist = fmt_hist(&my_history());
    let prop = RUN.get().map(|r| r.prop.clone()).unwrap_or_else(|| "C10".into());
    let last = hist.last().cloned().unwrap_or_else(|| "new".into());
    let kind = last.split(|c| c == '(' || c == '!').next().unwrap_or("").to_string();
    let sys = RUN.get().map(|r| r.sys_name.clone()).unwrap_or_default();
    let sig = format!("{sys}/{kind}/abort");
    let path = write_replay(&prop, &sig, &format!("non-unwinding panic (process abort): {full}"), &hist, "");
    print_line(&format!("ABORT signature={sig} message={}", full.replace('\n', " ")));
    print_line(&format!("VIOLATION property={prop} replay={path}"));
}

pub fn install_panic_hook() {
    unsafe {
        signal(6, on_abort as usize);
    }
    panic::set_hook(Box::new(|info| {
        if info.payload().downcast_ref::<InjectedPanic>().is_some() {
            return;
        }
        if info.payload().downcast_ref::<CallbackBudget>().is_some() {
            LAST_PANIC.with(|p| *p.borrow_mut() = format!("hang: the operation invoked more than {CALLBACK_BUDGET} user callbacks (non-terminating loop)"));
            return;
        }
        let msg = if let Some(s) = info.payload().downcast_ref::<&str>() {
            s.to_string()
        } else if let Some(s) = info.payload().downcast_ref::<String>() {
            s.clone()
        } else {
            "<non-string panic payload>".to_string()
        };
        let loc = info
            .location()
            .map(|l| format!("{}:{}", l.file(), l.line()))
            .unwrap_or_default();
        let full = format!("{msg} @ {loc}");
        LAST_PANIC.with(|p| *p.borrow_mut() = full.clone());
        if GUARD_DEPTH.with(|g| g.get()) == 0 {
            eprintln!("itree-mc: panic outside a guarded subject call (machinery error): {full}");
        }
    }));
}

pub fn last_panic() -> String {
    LAST_PANIC.with(|p| p.borrow().clone())
}

// ---------------------------------------------------------------------------
// guarded subject call
// ---------------------------------------------------------------------------

pub enum Caught {
    Injected,
    Panic(String),
}

/// Run a subject call; an injected callback panic or a genuine unwinding panic is caught.
#[inline]
pub fn guard<R>(f: impl FnOnce() -> R) -> Result<R, Caught> {
    GUARD_DEPTH.with(|g| g.set(g.get() + 1));
    let r = panic::catch_unwind(AssertUnwindSafe(f));
    GUARD_DEPTH.with(|g| g.set(g.get() - 1));
    match r {
        Ok(r) => Ok(r),
        Err(p) => {
            cb_disarm();
            Err(classify(p))
        }
    }
}

fn classify(p: Box<dyn Any + Send>) -> Caught {
    if p.downcast_ref::<InjectedPanic>().is_some() {
        Caught::Injected
    } else {
        Caught::Panic(last_panic())
    }
}

/// The 8-byte words of `*t` itself (the struct, not what it points to), for the raw-word state identity.
/// Trailing bytes that do not fill a word are ignored.  Reading padding bytes this way is outside the
/// language's guarantees; the engine therefore keeps only words that proved stable across independent
/// replays and bounds the number of raw variants per canonical state (engine.rs, `raw_calibrate`).
pub fn raw_words_of<T>(t: &T, out: &mut Vec<u64>) {
    let n = std::mem::size_of::<T>() / 8;
    if std::mem::align_of::<T>() < 8 {
        return;
    }
    let p = t as *const T as *const u64;
    for i in 0..n {
        out.push(unsafe { std::ptr::read_volatile(p.add(i)) });
    }
}

/// Overwrite the part of the stack the next calls are going to use with zeros.  Padding bytes of a freshly
/// constructed collection struct are whatever the stack held before; scrubbing makes them (nearly always)
/// zero, which keeps the raw-word state identity from splitting one state into several by accident.
#[inline(never)]
pub fn scrub_stack() {
    let mut a = [0u64; 2048];
    for x in a.iter_mut() {
        unsafe { std::ptr::write_volatile(x, 0) };
    }
    std::hint::black_box(&mut a);
}
