//! Minimal JSON writer and reader (std only).

use std::collections::BTreeMap;
use std::fmt::Write;

pub fn esc(s: &str) -> String {
    let mut o = String::with_capacity(s.len() + 2);
    o.push('"');
    for c in s.chars() {
        match c {
            '"' => o.push_str("\\\""),
            '\\' => o.push_str("\\\\"),
            '\n' => o.push_str("\\n"),
            '\r' => o.push_str("\\r"),
            '\t' => o.push_str("\\t"),
            c if (c as u32) < 0x20 => {
                let _ = write!(o, "\\u{:04x}", c as u32);
            }
            c => o.push(c),
        }
    }
    o.push('"');
    o
}

#[derive(Default)]
pub struct Obj {
    parts: Vec<String>,
}

impl Obj {
    pub fn new() -> Self {
        Self { parts: vec![] }
    }
    pub fn raw(&mut self, k: &str, v: &str) -> &mut Self {
        self.parts.push(format!("{}: {}", esc(k), v));
        self
    }
    pub fn str(&mut self, k: &str, v: &str) -> &mut Self {
        self.raw(k, &esc(v))
    }
    pub fn num<T: std::fmt::Display>(&mut self, k: &str, v: T) -> &mut Self {
        self.raw(k, &format!("{v}"))
    }
    pub fn boolean(&mut self, k: &str, v: bool) -> &mut Self {
        self.raw(k, if v { "true" } else { "false" })
    }
    pub fn strs(&mut self, k: &str, v: &[String]) -> &mut Self {
        self.raw(k, &arr_str(v))
    }
    pub fn finish(&self) -> String {
        format!("{{{}}}", self.parts.join(", "))
    }
}

pub fn arr_str(v: &[String]) -> String {
    format!("[{}]", v.iter().map(|s| esc(s)).collect::<Vec<_>>().join(", "))
}
pub fn arr_raw(v: &[String]) -> String {
    format!("[{}]", v.join(", "))
}
pub fn map_num(m: &BTreeMap<String, u64>) -> String {
    let mut o = Obj::new();
    for (k, v) in m {
        o.num(k, v);
    }
    o.finish()
}

// ---------------------------------------------------------------------------

#[derive(Debug, Clone)]
pub enum Val {
    Null,
    Bool(bool),
    Num(f64),
    Str(String),
    Arr(Vec<Val>),
    Obj(BTreeMap<String, Val>),
}

impl Val {
    pub fn get(&self, k: &str) -> Option<&Val> {
        match self {
            Val::Obj(m) => m.get(k),
            _ => None,
        }
    }
    pub fn as_str(&self) -> Option<&str> {
        match self {
            Val::Str(s) => Some(s),
            _ => None,
        }
    }
    pub fn as_strs(&self) -> Vec<String> {
        match self {
            Val::Arr(a) => a.iter().filter_map(|v| v.as_str().map(|s| s.to_string())).collect(),
            _ => vec![],
        }
    }
}

pub fn parse(s: &str) -> Result<Val, String> {
    let b = s.as_bytes();
    let mut i = 0;
    let v = pv(b, &mut i)?;
    ws(b, &mut i);
    if i != b.len() {
        return Err(format!("trailing data at {i}"));
    }
    Ok(v)
}
fn ws(b: &[u8], i: &mut usize) {
    while *i < b.len() && (b[*i] as char).is_ascii_whitespace() {
        *i += 1;
    }
}
fn pv(b: &[u8], i: &mut usize) -> Result<Val, String> {
    ws(b, i);
    if *i >= b.len() {
        return Err("eof".into());
    }
    match b[*i] {
        b'{' => {
            *i += 1;
            let mut m = BTreeMap::new();
            loop {
                ws(b, i);
                if *i < b.len() && b[*i] == b'}' {
                    *i += 1;
                    break;
                }
                let k = match pv(b, i)? {
                    Val::Str(s) => s,
                    _ => return Err("key".into()),
                };
                ws(b, i);
                if *i >= b.len() || b[*i] != b':' {
                    return Err("colon".into());
                }
                *i += 1;
                let v = pv(b, i)?;
                m.insert(k, v);
                ws(b, i);
                if *i < b.len() && b[*i] == b',' {
                    *i += 1;
                }
            }
            Ok(Val::Obj(m))
        }
        b'[' => {
            *i += 1;
            let mut a = vec![];
            loop {
                ws(b, i);
                if *i < b.len() && b[*i] == b']' {
                    *i += 1;
                    break;
                }
                a.push(pv(b, i)?);
                ws(b, i);
                if *i < b.len() && b[*i] == b',' {
                    *i += 1;
                }
            }
            Ok(Val::Arr(a))
        }
        b'"' => {
            *i += 1;
            let mut s = String::new();
            while *i < b.len() && b[*i] != b'"' {
                if b[*i] == b'\\' {
                    *i += 1;
                    match b.get(*i) {
                        Some(b'n') => s.push('\n'),
                        Some(b't') => s.push('\t'),
                        Some(b'r') => s.push('\r'),
                        Some(b'u') => {
                            let h = std::str::from_utf8(&b[*i + 1..*i + 5]).map_err(|e| e.to_string())?;
                            let c = u32::from_str_radix(h, 16).map_err(|e| e.to_string())?;
                            s.push(char::from_u32(c).unwrap_or('?'));
                            *i += 4;
                        }
                        Some(&c) => s.push(c as char),
                        None => return Err("eof in escape".into()),
                    }
                    *i += 1;
                } else {
                    // copy one utf-8 char
                    let start = *i;
                    *i += 1;
                    while *i < b.len() && (b[*i] & 0xC0) == 0x80 {
                        *i += 1;
                    }
                    s.push_str(std::str::from_utf8(&b[start..*i]).map_err(|e| e.to_string())?);
                }
            }
            *i += 1;
            Ok(Val::Str(s))
        }
        b't' => {
            *i += 4;
            Ok(Val::Bool(true))
        }
        b'f' => {
            *i += 5;
            Ok(Val::Bool(false))
        }
        b'n' => {
            *i += 4;
            Ok(Val::Null)
        }
        _ => {
            let start = *i;
            while *i < b.len() && (b[*i] == b'-' || b[*i] == b'+' || b[*i] == b'.' || b[*i] == b'e' || b[*i] == b'E' || b[*i].is_ascii_digit()) {
                *i += 1;
            }
            let t = std::str::from_utf8(&b[start..*i]).map_err(|e| e.to_string())?;
            t.parse::<f64>().map(Val::Num).map_err(|e| format!("num {t}: {e}"))
        }
    }
}
