//! Structural analysis of an arena snapshot: reachability, red-black / search-tree
//! invariants (C02), slot accounting (C11), and the three canonical encodings.

use i_tree::verif::ArenaSnap;
use i_tree::EMPTY_REF;

pub struct Analysis {
    /// slots reachable from the root, in in-order sequence
    pub inorder: Vec<u32>,
    /// depth (root = 1) of every in-order entry
    pub depth: Vec<u32>,
    pub height: u32,
    pub rb_errors: Vec<String>,
    pub arena_errors: Vec<String>,
    /// links are sane enough for the live/shape encodings to be meaningful
    pub walkable: bool,
}

pub fn analyze<P, K: Ord>(s: &ArenaSnap<P>, key: impl Fn(&P) -> K) -> Analysis {
    let n = s.slots.len() as u32;
    let mut a = Analysis { inorder: vec![], depth: vec![], height: 0, rb_errors: vec![], arena_errors: vec![], walkable: true };
    let mut seen = vec![false; n as usize];
    if s.root != EMPTY_REF {
        if s.root == 0 {
            a.rb_errors.push("root is the sentinel slot 0".into());
            a.walkable = false;
        } else if s.root >= n {
            a.rb_errors.push(format!("root {} out of range (buffer {})", s.root, n));
            a.walkable = false;
        } else if s.slots[s.root as usize].parent != EMPTY_REF {
            a.rb_errors.push(format!("root {} has parent {}", s.root, s.slots[s.root as usize].parent));
        }
    }
    // iterative in-order walk with explicit stack: (slot, depth, state)
    let mut black_heights: Vec<u32> = vec![];
    if a.walkable && s.root != EMPTY_REF {
        let mut stack: Vec<(u32, u32, u32, u8)> = vec![(s.root, 1, 0, 0)]; // slot, depth, blacks above incl. self, phase
        seen[s.root as usize] = true;
        let b0 = s.slots[s.root as usize].black as u32;
        stack[0].2 = b0;
        'walk: while let Some(top) = stack.last_mut() {
            let (slot, d, bl, phase) = *top;
            let nd = &s.slots[slot as usize];
            if phase == 0 {
                top.3 = 1;
                let c = nd.left;
                if c == EMPTY_REF {
                    black_heights.push(bl);
                } else {
                    if !child_ok(s, slot, c, "left", n, &mut seen, &mut a) {
                        break 'walk;
                    }
                    if !nd.black && !s.slots[c as usize].black {
                        a.rb_errors.push(format!("red slot {slot} has red left child {c}"));
                    }
                    let cb = bl + s.slots[c as usize].black as u32;
                    stack.push((c, d + 1, cb, 0));
                }
            } else if phase == 1 {
                top.3 = 2;
                a.inorder.push(slot);
                a.depth.push(d);
                a.height = a.height.max(d);
                let c = nd.right;
                if c == EMPTY_REF {
                    black_heights.push(bl);
                } else {
                    if !child_ok(s, slot, c, "right", n, &mut seen, &mut a) {
                        break 'walk;
                    }
                    if !nd.black && !s.slots[c as usize].black {
                        a.rb_errors.push(format!("red slot {slot} has red right child {c}"));
                    }
                    let cb = bl + s.slots[c as usize].black as u32;
                    stack.push((c, d + 1, cb, 0));
                }
            } else {
                stack.pop();
            }
        }
    }
    if a.walkable {
        for w in a.inorder.windows(2) {
            let (x, y) = (&s.slots[w[0] as usize].payload, &s.slots[w[1] as usize].payload);
            if key(x) >= key(y) {
                a.rb_errors.push(format!("search order broken between slots {} and {}", w[0], w[1]));
            }
        }
        if let (Some(mn), Some(mx)) = (black_heights.iter().min(), black_heights.iter().max()) {
            if mn != mx {
                a.rb_errors.push(format!("black counts differ between root-to-missing-child paths: {mn}..{mx}"));
            }
        }
        let cnt = a.inorder.len() as u64;
        if a.height > 0 && a.height <= 60 {
            // height <= 2*log2(n+1)+1  <=>  2^(height-1) <= (n+1)^2
            if (1u128 << (a.height - 1)) > ((cnt + 1) as u128) * ((cnt + 1) as u128) {
                a.rb_errors.push(format!("height {} exceeds 2*log2({}+1)+1", a.height, cnt));
            }
        } else if a.height > 60 {
            a.rb_errors.push(format!("height {} absurd", a.height));
        }
    }
    // ---- arena accounting
    let mut free = vec![false; n as usize];
    for &u in &s.unused {
        if u == 0 {
            a.arena_errors.push("sentinel slot 0 is on the free list".into());
        } else if u >= n {
            a.arena_errors.push(format!("free-list entry {u} out of range (buffer {n})"));
        } else {
            if free[u as usize] {
                a.arena_errors.push(format!("slot {u} is on the free list twice"));
            }
            free[u as usize] = true;
            if seen[u as usize] {
                a.arena_errors.push(format!("slot {u} is free and part of the tree at once"));
            }
        }
    }
    if a.walkable {
        for i in 1..n as usize {
            if !free[i] && !seen[i] {
                a.arena_errors.push(format!("slot {i} is lost: neither in the tree nor on the free list"));
            }
        }
    }
    if n == 0 {
        a.arena_errors.push("buffer is empty (no sentinel slot)".into());
    }
    a
}

fn child_ok<P>(s: &ArenaSnap<P>, p: u32, c: u32, side: &str, n: u32, seen: &mut [bool], a: &mut Analysis) -> bool {
    if c == 0 {
        a.rb_errors.push(format!("sentinel slot 0 is linked as {side} child of slot {p}"));
        a.walkable = false;
        return false;
    }
    if c >= n {
        a.rb_errors.push(format!("{side} link of slot {p} out of range: {c} (buffer {n})"));
        a.walkable = false;
        return false;
    }
    if seen[c as usize] {
        a.rb_errors.push(format!("slot {c} reachable twice (cycle or shared child) via {side} of {p}"));
        a.walkable = false;
        return false;
    }
    seen[c as usize] = true;
    if s.slots[c as usize].parent != p {
        a.rb_errors.push(format!("slot {c} is {side} child of {p} but its parent link is {}", s.slots[c as usize].parent));
    }
    true
}

fn w32(out: &mut Vec<u8>, v: u32) {
    out.extend_from_slice(&v.to_le_bytes());
}

/// `full`: every field of every slot (freed ones and slot 0 included), free list in order, capacity.
pub fn canon_full<P>(s: &ArenaSnap<P>, enc: impl Fn(&P, &mut Vec<u8>), out: &mut Vec<u8>) {
    out.push(b'F');
    w32(out, s.root);
    w32(out, s.slots.len() as u32);
    for sl in &s.slots {
        w32(out, sl.parent);
        w32(out, sl.left);
        w32(out, sl.right);
        out.push(sl.black as u8);
        enc(&sl.payload, out);
    }
    w32(out, s.unused.len() as u32);
    for &u in &s.unused {
        w32(out, u);
    }
    w32(out, s.unused_capacity as u32);
}

/// `live`: as full, but payload and links of freed slots and of slot 0 are dropped.
pub fn canon_live<P>(s: &ArenaSnap<P>, a: &Analysis, enc: impl Fn(&P, &mut Vec<u8>), out: &mut Vec<u8>) {
    if !a.walkable {
        return canon_full(s, enc, out);
    }
    out.push(b'L');
    w32(out, s.root);
    w32(out, s.slots.len() as u32);
    let mut linked = vec![false; s.slots.len()];
    for &i in &a.inorder {
        linked[i as usize] = true;
    }
    for (i, sl) in s.slots.iter().enumerate() {
        if linked[i] {
            out.push(1);
            w32(out, sl.parent);
            w32(out, sl.left);
            w32(out, sl.right);
            out.push(sl.black as u8);
            enc(&sl.payload, out);
        } else {
            out.push(0);
        }
    }
    w32(out, s.unused.len() as u32);
    for &u in &s.unused {
        w32(out, u);
    }
    w32(out, s.unused_capacity as u32);
}

/// `shape`: in-order (payload, colour, depth), buffer length, free-list length and capacity.
pub fn canon_shape<P>(s: &ArenaSnap<P>, a: &Analysis, enc: impl Fn(&P, &mut Vec<u8>), out: &mut Vec<u8>) {
    if !a.walkable {
        return canon_full(s, enc, out);
    }
    out.push(b'S');
    w32(out, s.slots.len() as u32);
    w32(out, a.inorder.len() as u32);
    for (k, &i) in a.inorder.iter().enumerate() {
        let sl = &s.slots[i as usize];
        out.push(sl.black as u8);
        out.push(a.depth[k] as u8);
        enc(&sl.payload, out);
    }
    w32(out, s.unused.len() as u32);
    w32(out, s.unused_capacity as u32);
}

#[derive(Clone, Copy, PartialEq, Eq, Debug)]
pub enum Mode {
    Full,
    Live,
    Shape,
}
impl Mode {
    pub fn parse(s: &str) -> Option<Mode> {
        match s {
            "full" => Some(Mode::Full),
            "live" => Some(Mode::Live),
            "shape" => Some(Mode::Shape),
            _ => None,
        }
    }
}

pub fn canon<P>(mode: Mode, s: &ArenaSnap<P>, a: &Analysis, enc: impl Fn(&P, &mut Vec<u8>), out: &mut Vec<u8>) {
    match mode {
        Mode::Full => canon_full(s, enc, out),
        Mode::Live => canon_live(s, a, enc, out),
        Mode::Shape => canon_shape(s, a, enc, out),
    }
}

/// Shape-only hash (colour + depth sequence) used to count distinct tree shapes.
pub fn shape_hash<P>(s: &ArenaSnap<P>, a: &Analysis) -> u64 {
    let mut h = 0xcbf29ce484222325u64;
    for (k, &i) in a.inorder.iter().enumerate() {
        let v = ((a.depth[k] as u64) << 1) | s.slots[i as usize].black as u64;
        h ^= v + 1;
        h = h.wrapping_mul(0x100000001b3);
    }
    h
}

/// Classification of the removal path `delete_index(slot)` will take, from the pre-state.
pub fn removal_case<P>(s: &ArenaSnap<P>, slot: u32) -> &'static str {
    let nd = &s.slots[slot as usize];
    let two = nd.left != EMPTY_REF && nd.right != EMPTY_REF;
    let mut d = slot;
    if two {
        d = nd.right;
        while s.slots[d as usize].left != EMPTY_REF {
            d = s.slots[d as usize].left;
        }
    }
    let dn = &s.slots[d as usize];
    let child = if dn.left != EMPTY_REF { dn.left } else { dn.right };
    if child != EMPTY_REF {
        return if two { "two-children/successor-has-child" } else { "one-child" };
    }
    if dn.parent == EMPTY_REF {
        return "root-leaf";
    }
    if !dn.black {
        return if two { "two-children/successor-red-leaf" } else { "red-leaf" };
    }
    // black leaf: look at the sibling
    let p = &s.slots[dn.parent as usize];
    let is_left = p.left == d;
    let sib = if is_left { p.right } else { p.left };
    if sib == EMPTY_REF {
        return "black-leaf/no-sibling(!)";
    }
    let sn = &s.slots[sib as usize];
    let isb = |i: u32| i == EMPTY_REF || s.slots[i as usize].black;
    let pre = two;
    if !sn.black {
        return if pre { "two-children/black-leaf/red-sibling" } else { "black-leaf/red-sibling" };
    }
    let (near, far) = if is_left { (sn.left, sn.right) } else { (sn.right, sn.left) };
    if isb(near) && isb(far) {
        if !p.black {
            return if pre { "two-children/black-leaf/black-sibling-black-nephews/red-parent" } else { "black-leaf/black-sibling-black-nephews/red-parent" };
        }
        return if pre { "two-children/black-leaf/black-sibling-black-nephews/black-parent(recursive)" } else { "black-leaf/black-sibling-black-nephews/black-parent(recursive)" };
    }
    if isb(far) {
        return if pre { "two-children/black-leaf/near-nephew-red" } else { "black-leaf/near-nephew-red" };
    }
    if pre { "two-children/black-leaf/far-nephew-red" } else { "black-leaf/far-nephew-red" }
}
