//! Explorer S: bitmask segment tree with expiring values.

use crate::engine::{Cx, Step, System, NO_INJ};
use crate::rt::{self, callback, guard, Caught};
use crate::{die, run_bfs, run_replay, Args};
use i_tree::seg::exp::{SegExpCollection, SegRange};
use i_tree::seg::tree::SegExpTree;
use i_tree::ExpiredVal;
use std::marker::PhantomData;

#[derive(Clone, Copy, Debug, PartialEq, Eq)]
pub struct SV {
    pub id: u8,
    pub exp: u8,
}
impl ExpiredVal<u8> for SV {
    fn expiration(&self) -> u8 {
        callback();
        self.exp
    }
}

pub trait Coord: Copy + Send + Sync + 'static {
    const NAME: &'static str;
    fn from_i64(v: i64) -> Self;
    fn to_i64(self) -> i64;
}
impl Coord for i32 {
    const NAME: &'static str = "i32";
    fn from_i64(v: i64) -> Self {
        v as i32
    }
    fn to_i64(self) -> i64 {
        self as i64
    }
}
impl Coord for i64 {
    const NAME: &'static str = "i64";
    fn from_i64(v: i64) -> Self {
        v
    }
    fn to_i64(self) -> i64 {
        self
    }
}
impl Coord for u32 {
    const NAME: &'static str = "u32";
    fn from_i64(v: i64) -> Self {
        v as u32
    }
    fn to_i64(self) -> i64 {
        self as i64
    }
}

// ---------------------------------------------------------------------------
// reference arithmetic of the 32-leaf implicit heap (harness side, independent of src/seg)
// ---------------------------------------------------------------------------

/// log2 of the bucket width: smallest s with 32 * 2^s >= len
pub fn ref_scale(len: u128) -> u32 {
    let mut s = 0;
    while (32u128 << s) < len {
        s += 1;
    }
    s
}
pub fn ref_bucket(lo: i64, s: u32, x: i64) -> u32 {
    (((x as i128) - (lo as i128)) >> s) as u32
}
/// maximal heap nodes tiling the leaf range [a,b]
pub fn ref_places(a: u32, b: u32) -> Vec<u32> {
    fn rec(node: u32, l: u32, r: u32, a: u32, b: u32, out: &mut Vec<u32>) {
        if b < l || r < a {
            return;
        }
        if a <= l && r <= b {
            out.push(node);
            return;
        }
        let m = (l + r) / 2;
        rec(2 * node + 1, l, m, a, b, out);
        rec(2 * node + 2, m + 1, r, a, b, out);
    }
    let mut v = vec![];
    rec(0, 0, 31, a, b, &mut v);
    v.sort();
    v
}
/// do the places tile the leaf range [a,b] exactly (each bucket under exactly one place, nothing outside), at most 8 of them?
pub fn tiles_exactly(places: &[u32], a: u32, b: u32) -> bool {
    if places.len() > 8 {
        return false;
    }
    let mut cover = [0u8; 32];
    for &p in places {
        if p > 62 {
            return false;
        }
        let (l, r) = ref_cover(p);
        for x in l..=r {
            cover[x as usize] += 1;
        }
    }
    (0..32u32).all(|x| cover[x as usize] == ((a <= x && x <= b) as u8))
}

/// leaf interval covered by a heap node
pub fn ref_cover(node: u32) -> (u32, u32) {
    let mut lvl = 0;
    while (1u32 << (lvl + 1)) - 1 <= node {
        lvl += 1;
    }
    let first = (1u32 << lvl) - 1;
    let width = 32 >> lvl;
    let l = (node - first) * width;
    (l, l + width - 1)
}

// ---------------------------------------------------------------------------

#[derive(Clone, Default, Debug)]
pub struct SFlags {
    pub clear: bool,
    pub restart: bool,
    pub partial: bool,
    /// queries consumed through for_each / count / last / nth as well as through the loop over next
    pub styles: bool,
    pub o_query: bool,
    pub o_purge: bool,
    pub o_struct: bool,
    pub o_twin: bool,
}

pub struct SSys<R: Coord> {
    pub lo: i64,
    pub hi: i64,
    pub scale: u32,
    pub ranges: Vec<(i64, i64)>,
    pub emax: u8,
    pub tmax: u8,
    pub pop: usize,
    pub f: SFlags,
    pub prop: &'static str,
    pub inj_budget: u32,
    pub _p: PhantomData<fn() -> R>,
}

pub struct SObj<R: Coord>
where
    i64: From<R>,
{
    pub tree: SegExpTree<R, u8, SV>,
    /// (id, range index, exp) of values that can still be reported (exp >= t)
    pub model: Vec<(u8, u8, u8)>,
    pub t: u8,
    pub inj_used: u32,
}

const K_INS: u32 = 1;
const K_Q: u32 = 2;
const K_CLEAR: u32 = 3;
const K_RESTART: u32 = 4;
const TAKE_ALL: u32 = 15;
/// other ways of consuming an iterator completely / partially: they go through `Iterator` methods that an
/// implementation may override (fold, count, last, nth), so each must behave like the loop over `next`
const TAKE_FOLD: u32 = 14; // for_each (built on fold): full result
const TAKE_COUNT: u32 = 13; // count(): only the number of items is seen
const TAKE_LAST: u32 = 12; // last(): only the last item is seen
const TAKE_NTH1: u32 = 11; // nth(1): skips one item, yields the second, rest is dropped unconsumed
const TAKE_NEXT_FOLD: u32 = 10; // one next(), the rest through for_each: full result (an override must resume correctly)
const TAKE_NEXT_COUNT: u32 = 9; // one next(), the rest through count()
const TAKE_ALL_FORGET: u32 = 8; // loop over next() to the end, then the iterator is leaked (mem::forget) instead of dropped
fn take_is_full(take: u32) -> bool {
    take >= TAKE_LAST || take == TAKE_NEXT_FOLD || take == TAKE_NEXT_COUNT || take == TAKE_ALL_FORGET
}

fn op_ins(ri: u8, e: u8) -> u32 {
    (K_INS << 24) | ((ri as u32) << 8) | e as u32
}
fn op_q(ri: u8, t: u8, take: u32) -> u32 {
    (K_Q << 24) | ((ri as u32) << 8) | ((t as u32) << 4) | take
}

pub fn alphabet(lo: i64, hi: i64) -> (u32, Vec<(i64, i64)>) {
    let len = (hi as i128 - lo as i128 + 1) as u128;
    let s = ref_scale(len);
    let w: i128 = 1i128 << s;
    let nb = (((hi as i128 - lo as i128) >> s) + 1) as i128;
    let b = |i: i128| -> i64 { (lo as i128 + i.clamp(0, nb - 1) * w) as i64 };
    let e = |i: i128| -> i64 { ((lo as i128 + i.clamp(0, nb - 1) * w + w - 1).min(hi as i128)) as i64 };
    let mut v = vec![
        (lo, hi),
        (lo, lo),
        (hi, hi),
        (b(nb / 3), e(nb / 3)),
        (e(nb / 3), b(nb / 3 + 1)),
        (b(nb / 3 + 1), b(nb / 3 + 1)),
        (b(nb / 6), e(nb / 2)),
        (b(nb / 2 - 1), e(nb * 5 / 6)),
        (b(nb - 3), e(nb - 2)),
    ];
    let mut seen = vec![];
    v.retain(|r| {
        if seen.contains(r) {
            false
        } else {
            seen.push(*r);
            true
        }
    });
    (s, v)
}

impl<R: Coord> SSys<R>
where
    i64: From<R>,
{
    fn rng(&self, ri: u8) -> SegRange<R> {
        let (a, b) = self.ranges[ri as usize];
        SegRange { min: R::from_i64(a), max: R::from_i64(b) }
    }
    fn buckets(&self, ri: u8) -> (u32, u32) {
        let (a, b) = self.ranges[ri as usize];
        (ref_bucket(self.lo, self.scale, a), ref_bucket(self.lo, self.scale, b))
    }
    fn meets(&self, r1: u8, r2: u8) -> bool {
        let (a, b) = self.buckets(r1);
        let (c, d) = self.buckets(r2);
        a <= d && c <= b
    }
    fn stored_ids(tree: &SegExpTree<R, u8, SV>) -> Vec<u8> {
        let mut ids: Vec<u8> = tree.verif_chunks().iter().flatten().map(|(v, _)| v.id).collect();
        ids.sort();
        ids.dedup();
        ids
    }

    /// physical copies must sit exactly at the places of their own mask, once each
    fn structure(&self, tree: &SegExpTree<R, u8, SV>, live: Option<(&[(u8, u8, u8)], u8)>) -> Result<(), String> {
        let ch = tree.verif_chunks();
        for (ci, c) in ch.iter().enumerate() {
            for (k, (v, m)) in c.iter().enumerate() {
                if ci >= 64 || (m >> ci) & 1 == 0 {
                    return Err(format!("copy of value {} in list {ci} whose place mask {m:#x} does not contain that place", v.id));
                }
                if c[..k].iter().any(|(v2, _)| v2.id == v.id) {
                    return Err(format!("value {} stored twice in list {ci}", v.id));
                }
            }
        }
        if let Some((model, t)) = live {
            for (ci, c) in ch.iter().enumerate() {
                for (v, _) in c {
                    if v.exp < t {
                        return Err(format!("after a fully consumed whole-domain query at time {t}, list {ci} still holds a copy of value {} with expiration {}", v.id, v.exp));
                    }
                }
            }
            for (id, ri, e) in model {
                if *e < t {
                    continue;
                }
                let (a, b) = self.buckets(*ri);
                let have: Vec<u32> = ch.iter().enumerate().filter(|(_, c)| c.iter().any(|(v, _)| v.id == *id)).map(|(i, _)| i as u32).collect();
                if !tiles_exactly(&have, a, b) {
                    return Err(format!("copies of the unexpired value {id} (range #{ri}, buckets {a}..{b}) are now at places {have:?}, which no longer tile its range: a copy was lost"));
                }
            }
        }
        Ok(())
    }

    fn do_step(&self, o: &mut SObj<R>, st: Step, cx: &mut Cx) -> u32 {
        let prop = self.prop;
        let kind = st.op >> 24;
        let inj = if st.inj == NO_INJ { None } else { Some(st.inj) };
        let mut ncb = 0;
        let _ = ncb;
        match kind {
            K_INS => {
                let ri = ((st.op >> 8) & 0xff) as u8;
                let e = (st.op & 0xff) as u8;
                let ids = Self::stored_ids(&o.tree);
                let id = (0u8..).find(|i| !ids.contains(i) && !o.model.iter().any(|m| m.0 == *i)).unwrap();
                let r = self.rng(ri);
                rt::cb_reset(inj);
                let tree = &mut o.tree;
                let res = guard(|| tree.insert_by_range(r, SV { id, exp: e }));
                ncb = rt::cb_count();
                match res {
                    Ok(()) => {
                        if e >= o.t {
                            o.model.push((id, ri, e));
                        }
                        if self.f.o_struct || self.f.o_purge {
                            // one insert writes at most 8 copies, exactly at the tiling places
                            let (a, b) = self.buckets(ri);
                            let ch = o.tree.verif_chunks();
                            let have: Vec<u32> = ch.iter().enumerate().filter(|(_, c)| c.iter().any(|(v, _)| v.id == id)).map(|(i, _)| i as u32).collect();
                            if !tiles_exactly(&have, a, b) {
                                cx.violate(prop, "placement", format!("insert of range #{ri} (buckets {a}..{b}) stored copies at places {have:?}: they do not tile the range exactly with at most 8 places (maximal tiling would be {:?})", ref_places(a, b)));
                            }
                        }
                    }
                    Err(Caught::Panic(m)) => cx.violate(prop, "panic", format!("insert_by_range panicked: {m}")),
                    Err(Caught::Injected) => {
                        o.inj_used += 1;
                        cx.violate(prop, "torn", "insert_by_range invoked a user callback".into());
                    }
                }
            }
            K_Q => {
                let ri = ((st.op >> 8) & 0xff) as u8;
                let tq = ((st.op >> 4) & 0xf) as u8;
                let take = st.op & 0xf;
                let r = self.rng(ri);
                rt::cb_reset(inj);
                let tree = &mut o.tree;
                let res = guard(|| {
                    let mut got: Vec<SV> = vec![];
                    let mut it = tree.iter_by_range(r, tq);
                    let mut seen_count: Option<usize> = None;
                    // size_hint is part of the iterator protocol: callers such as `extend` ask before the first
                    // item; it must at least be safe to call in every state (only the process outcome is judged)
                    let _ = it.size_hint();
                    if take == TAKE_ALL {
                        for v in &mut it {
                            got.push(v);
                            if got.len() > 1000 {
                                break;
                            }
                        }
                        // an exhausted iterator may be asked again: whatever it answers (the trait leaves that
                        // open for iterators that are not fused), it must not crash
                        let _ = it.size_hint();
                        let _ = it.next();
                    } else if take == TAKE_ALL_FORGET {
                        for v in &mut it {
                            got.push(v);
                            if got.len() > 1000 {
                                break;
                            }
                        }
                        // leaking a value is safe Rust: a fully consumed query stays fully consumed
                        std::mem::forget(it);
                        return (got, seen_count);
                    } else if take == TAKE_NEXT_FOLD {
                        if let Some(v) = it.next() {
                            got.push(v);
                        }
                        let _ = it.size_hint();
                        it.for_each(|v| got.push(v));
                        return (got, seen_count);
                    } else if take == TAKE_NEXT_COUNT {
                        let first = it.next();
                        let had = first.is_some() as usize;
                        if let Some(v) = first {
                            got.push(v);
                        }
                        seen_count = Some(had + it.count());
                        return (got, seen_count);
                    } else if take == TAKE_FOLD {
                        it.for_each(|v| got.push(v));
                        return (got, seen_count);
                    } else if take == TAKE_COUNT {
                        seen_count = Some(it.count());
                        return (got, seen_count);
                    } else if take == TAKE_LAST {
                        if let Some(v) = it.last() {
                            got.push(v);
                        }
                        return (got, seen_count);
                    } else if take == TAKE_NTH1 {
                        if let Some(v) = it.nth(1) {
                            got.push(v);
                        }
                    } else {
                        for _ in 0..take {
                            match it.next() {
                                Some(v) => got.push(v),
                                None => break,
                            }
                        }
                    }
                    drop(it);
                    (got, seen_count)
                });
                ncb = rt::cb_count();
                o.t = tq;
                o.model.retain(|m| m.2 >= tq);
                match res {
                    Ok((got, seen_count)) => {
                        if inj.is_some() {
                            o.inj_used += 1;
                        }
                        let mut want: Vec<u8> = o.model.iter().filter(|m| self.meets(m.1, ri)).map(|m| m.0).collect();
                        want.sort();
                        let mut g: Vec<u8> = got.iter().map(|v| v.id).collect();
                        g.sort();
                        cx.evals += 1;
                        if self.f.o_query && (take == TAKE_COUNT || take == TAKE_NEXT_COUNT) {
                            if seen_count != Some(want.len()) {
                                cx.violate(prop, "query", format!("iter_by_range(range #{ri}, time {tq}).count() = {seen_count:?}, reference says {} items {want:?}", want.len()));
                            }
                        } else if self.f.o_query && (take == TAKE_LAST || take == TAKE_NTH1) {
                            let need = if take == TAKE_LAST { 1 } else { 2 };
                            let ok = if want.len() >= need { g.len() == 1 && want.contains(&g[0]) } else { g.is_empty() };
                            if !ok {
                                cx.violate(prop, "partial-query", format!("{} of iter_by_range(range #{ri}, time {tq}) = {g:?}, full reference answer {want:?}", if take == TAKE_LAST { "last()" } else { "nth(1)" }));
                            }
                        } else if self.f.o_query {
                            if take == TAKE_ALL || take == TAKE_FOLD || take == TAKE_NEXT_FOLD || take == TAKE_ALL_FORGET {
                                if g != want {
                                    cx.violate(prop, "query", format!("iter_by_range(range #{ri} {:?}, time {tq}) yielded ids {g:?}, reference says {want:?}", self.ranges[ri as usize]));
                                }
                            } else {
                                let dup = g.windows(2).any(|w| w[0] == w[1]);
                                let subset = g.iter().all(|x| want.contains(x));
                                let len_ok = g.len() == (take as usize).min(want.len());
                                if dup || !subset || !len_ok {
                                    cx.violate(prop, "partial-query", format!("first {take} items of iter_by_range(range #{ri}, time {tq}) = {g:?}, full reference answer {want:?}"));
                                }
                            }
                            for v in &got {
                                if let Some(m) = o.model.iter().find(|m| m.0 == v.id) {
                                    if m.2 != v.exp {
                                        cx.violate(prop, "query", format!("value {} came back with expiration {} (inserted with {})", v.id, v.exp, m.2));
                                    }
                                }
                            }
                        }
                        if self.f.o_purge && take_is_full(take) && ri == 0 {
                            cx.count("whole_domain_queries_checked");
                            if let Err(e) = self.structure(&o.tree, Some((&o.model, tq))) {
                                cx.violate(prop, "purge", e);
                            }
                        }
                    }
                    Err(Caught::Panic(m)) => cx.violate(prop, "panic", format!("iter_by_range / next panicked: {m}")),
                    Err(Caught::Injected) => {
                        o.inj_used += 1;
                        cx.count("injected_panics_caught");
                    }
                }
            }
            K_CLEAR | K_RESTART => {
                rt::cb_reset(inj);
                let tree = &mut o.tree;
                let res = guard(|| tree.clear());
                ncb = rt::cb_count();
                match res {
                    Ok(()) => {
                        o.model.clear();
                        if kind == K_RESTART {
                            o.t = 0;
                        }
                    }
                    Err(Caught::Panic(m)) => cx.violate(prop, "panic", format!("clear panicked: {m}")),
                    Err(Caught::Injected) => {
                        o.inj_used += 1;
                        cx.violate(prop, "torn", "clear invoked a user callback".into());
                    }
                }
            }
            _ => panic!("bad op"),
        }
        rt::cb_disarm();
        ncb
    }

    fn clock_at(hist: &[Step]) -> u8 {
        let mut t = 0;
        for s in hist {
            match s.op >> 24 {
                K_Q => t = ((s.op >> 4) & 0xf) as u8,
                K_RESTART => t = 0,
                _ => {}
            }
        }
        t
    }
}

impl<R: Coord> System for SSys<R>
where
    i64: From<R>,
{
    type Obj = SObj<R>;
    fn name(&self) -> String {
        format!("SegExpTree<{},u8,SV>[{},{}]", R::NAME, self.lo, self.hi)
    }
    fn prop(&self) -> &'static str {
        self.prop
    }
    fn fresh(&self, cx: &mut Cx) -> Option<SObj<R>> {
        rt::scrub_stack();
        rt::cb_reset(None);
        match guard(|| SegExpTree::<R, u8, SV>::new(SegRange { min: R::from_i64(self.lo), max: R::from_i64(self.hi) })) {
            Ok(Some(tree)) => Some(SObj { tree, model: vec![], t: 0, inj_used: 0 }),
            Ok(None) => {
                cx.violate(self.prop, "construct", format!("SegExpTree::new refused the domain [{},{}]", self.lo, self.hi));
                None
            }
            Err(_) => {
                cx.violate(self.prop, "panic", format!("constructor panicked: {}", rt::last_panic()));
                None
            }
        }
    }
    fn enabled(&self, o: &SObj<R>, out: &mut Vec<u32>) {
        let mut ids = Self::stored_ids(&o.tree);
        for m in &o.model {
            if !ids.contains(&m.0) {
                ids.push(m.0);
            }
        }
        if ids.len() < self.pop {
            for ri in 0..self.ranges.len() as u8 {
                for e in 0..=self.emax {
                    out.push(op_ins(ri, e));
                }
            }
        }
        for ri in 0..self.ranges.len() as u8 {
            for t in o.t..=self.tmax {
                out.push(op_q(ri, t, TAKE_ALL));
                if self.f.partial {
                    for k in 0..=2 {
                        out.push(op_q(ri, t, k));
                    }
                }
                if self.f.partial || self.f.styles {
                    for k in [TAKE_FOLD, TAKE_COUNT, TAKE_LAST, TAKE_NTH1, TAKE_NEXT_FOLD, TAKE_NEXT_COUNT, TAKE_ALL_FORGET] {
                        out.push(op_q(ri, t, k));
                    }
                }
            }
        }
        if self.f.clear {
            out.push(K_CLEAR << 24);
        }
        if self.f.restart && o.t > 0 {
            out.push(K_RESTART << 24);
        }
    }
    fn step(&self, o: &mut SObj<R>, st: Step, cx: &mut Cx) -> u32 {
        self.do_step(o, st, cx)
    }
    fn check_state(&self, o: &SObj<R>, cx: &mut Cx) {
        cx.evals += 1;
        if self.f.o_struct {
            if let Err(e) = self.structure(&o.tree, None) {
                cx.violate(self.prop, "structure", e);
            }
        }
    }
    fn canon(&self, o: &SObj<R>, out: &mut Vec<u8>) {
        out.push(o.t);
        out.push(o.inj_used as u8);
        out.push(o.model.len() as u8);
        for m in &o.model {
            out.extend_from_slice(&[m.0, m.1, m.2]);
        }
        for c in o.tree.verif_chunks() {
            out.push(c.len() as u8);
            for (v, m) in c {
                out.push(v.id);
                out.push(v.exp);
                out.extend_from_slice(&m.to_le_bytes());
            }
        }
    }
    fn raw_words(&self, o: &SObj<R>, out: &mut Vec<u64>) {
        rt::raw_words_of(&o.tree, out);
    }
    fn nontrivial(&self, o: &SObj<R>) -> bool {
        o.tree.verif_chunks().iter().any(|c| !c.is_empty())
    }
    fn may_inject(&self, o: &SObj<R>) -> bool {
        o.inj_used < self.inj_budget
    }
    fn audit_suffixes(&self, o: &SObj<R>) -> Vec<Vec<u32>> {
        let mut v = vec![];
        for ri in 0..self.ranges.len() as u8 {
            v.push(vec![op_q(ri, o.t, TAKE_ALL), op_q(0, o.t, TAKE_ALL)]);
            if o.t < self.tmax {
                // the same query again at every later time (a stale per-list bound shows only later)
                let mut h = vec![op_q(ri, o.t, TAKE_ALL)];
                for t2 in o.t + 1..=self.tmax {
                    h.push(op_q(ri, t2, TAKE_ALL));
                }
                v.push(h);
                v.push(vec![op_q(ri, o.t, 1), op_q(ri, o.t + 1, TAKE_ALL), op_q(0, self.tmax, TAKE_ALL)]);
            }
        }
        v.push(vec![K_RESTART << 24, op_q(0, 0, TAKE_ALL)]);
        v.push(vec![K_CLEAR << 24, op_q(0, o.t, TAKE_ALL)]);
        v
    }
    fn query_ops(&self, o: &SObj<R>) -> Vec<u32> {
        let mut v = vec![];
        for ri in 0..self.ranges.len() as u8 {
            for t in o.t..=self.tmax {
                v.push(op_q(ri, t, TAKE_ALL));
            }
            v.push(op_q(ri, o.t, 1));
        }
        v
    }
    fn update_ops(&self, o: &SObj<R>) -> Vec<u32> {
        let mut v = vec![];
        self.enabled(o, &mut v);
        v.retain(|x| x >> 24 != K_Q);
        v
    }
    fn twin(&self, hist: &[Step], cx: &mut Cx) -> Option<SObj<R>> {
        if !self.f.o_twin {
            return None;
        }
        let pos = hist.iter().rposition(|s| matches!(s.op >> 24, K_CLEAR | K_RESTART))?;
        let mut t = self.fresh(cx)?;
        t.t = Self::clock_at(&hist[..=pos]);
        for &st in &hist[pos + 1..] {
            self.do_step(&mut t, st, cx);
        }
        Some(t)
    }
    fn observe(&self, o: &mut SObj<R>, out: &mut Vec<u64>) {
        rt::cb_reset(None);
        // query results only (as multisets): what is physically stored is an internal matter - C12 asks for
        // observational identity with a new tree; C16 has its own oracle for stale copies
        let t = o.t;
        for ri in 0..self.ranges.len() as u8 {
            let r = self.rng(ri);
            let tree = &mut o.tree;
            match guard(|| {
                let mut g: Vec<u64> = tree.iter_by_range(r, t).map(|v| ((v.id as u64) << 8) | v.exp as u64).collect();
                g.sort();
                g
            }) {
                Ok(g) => {
                    out.push(g.len() as u64);
                    out.extend(g);
                }
                Err(_) => out.push(0xdead),
            }
        }
    }
    fn fmt_op(&self, o: u32) -> String {
        match o >> 24 {
            K_INS => format!("Ins(r{},{})", (o >> 8) & 0xff, o & 0xff),
            K_Q => {
                let take = o & 0xf;
                format!("Q(r{},{},{})", (o >> 8) & 0xff, (o >> 4) & 0xf, match take { TAKE_ALL => "all".to_string(), TAKE_FOLD => "fold".to_string(), TAKE_COUNT => "count".to_string(), TAKE_LAST => "last".to_string(), TAKE_NTH1 => "nth1".to_string(), TAKE_NEXT_FOLD => "next+fold".to_string(), TAKE_NEXT_COUNT => "next+count".to_string(), TAKE_ALL_FORGET => "all+forget".to_string(), _ => take.to_string() })
            }
            K_CLEAR => "Clear()".into(),
            K_RESTART => "ClearRestart()".into(),
            _ => format!("?{o}"),
        }
    }
    fn parse_op(&self, s: &str) -> Option<u32> {
        let (name, rest) = s.split_once('(')?;
        let args: Vec<&str> = rest.trim_end_matches(')').split(',').filter(|x| !x.is_empty()).collect();
        Some(match name {
            "Ins" => op_ins(args.first()?.trim_start_matches('r').parse().ok()?, args.get(1)?.parse().ok()?),
            "Q" => {
                let take = match *args.get(2)? { "all" => TAKE_ALL, "fold" => TAKE_FOLD, "count" => TAKE_COUNT, "last" => TAKE_LAST, "nth1" => TAKE_NTH1, "next+fold" => TAKE_NEXT_FOLD, "next+count" => TAKE_NEXT_COUNT, "all+forget" => TAKE_ALL_FORGET, x => x.parse().ok()? };
                op_q(args.first()?.trim_start_matches('r').parse().ok()?, args.get(1)?.parse().ok()?, take)
            }
            "Clear" => K_CLEAR << 24,
            "ClearRestart" => K_RESTART << 24,
            _ => return None,
        })
    }
    fn describe(&self, o: &SObj<R>) -> String {
        let copies: usize = o.tree.verif_chunks().iter().map(|c| c.len()).sum();
        format!("t={} reportable={:?} physical_copies={} ranges={:?}", o.t, o.model, copies, self.ranges)
    }
}

pub fn dispatch(a: &Args, replay: Option<(Vec<String>, String)>) -> ! {
    let lo = a.inum("lo", 0);
    let hi = a.inum("hi", 31);
    let (scale, ranges) = alphabet(lo, hi);
    let f = SFlags {
        clear: a.flag("clear"),
        restart: a.flag("restart"),
        partial: a.flag("partial"),
        styles: a.flag("styles"),
        o_query: a.flag("o_query"),
        o_purge: a.flag("o_purge"),
        o_struct: a.flag("o_struct"),
        o_twin: a.flag("o_twin"),
    };
    macro_rules! go {
        ($t:ty) => {{
            if a.num("pair", 0) > 0 {
                let (lo2, hi2) = (a.inum("lo2", lo), a.inum("hi2", hi));
                let (scale2, ranges2) = alphabet(lo2, hi2);
                let s1: SSys<$t> = SSys { lo, hi, scale, ranges: ranges.clone(), emax: a.num("emax", 2) as u8, tmax: a.num("t", 2) as u8, pop: a.num("pop", 2) as usize, f: f.clone(), prop: a.prop(), inj_budget: a.num("inject", 0) as u32, _p: PhantomData };
                let s2: SSys<$t> = SSys { lo: lo2, hi: hi2, scale: scale2, ranges: ranges2, emax: a.num("emax", 2) as u8, tmax: a.num("t", 2) as u8, pop: a.num("pop", 2) as usize, f: f.clone(), prop: a.prop(), inj_budget: a.num("inject", 0) as u32, _p: PhantomData };
                let p = crate::pair::PairSys { a: s1, b: s2, symmetric: (lo2, hi2) == (lo, hi), deep_queries: a.num("pair-deep-queries", 0) > 0 };
                match &replay {
                    None => run_bfs(p, a),
                    Some((h, sig)) => run_replay(p, a, h, sig),
                }
            }
            let s: SSys<$t> = SSys { lo, hi, scale, ranges, emax: a.num("emax", 2) as u8, tmax: a.num("t", 2) as u8, pop: a.num("pop", 2) as usize, f, prop: a.prop(), inj_budget: a.num("inject", 0) as u32, _p: PhantomData };
            match &replay {
                None if a.cmd == "family" => {
                    let nr = s.ranges.len();
                    crate::run_family(s, a, crate::family::s_histories(nr))
                }
                None => run_bfs(s, a),
                Some((h, sig)) => run_replay(s, a, h, sig),
            }
        }};
    }
    match a.get("coord").unwrap_or("i32") {
        "i32" => go!(i32),
        "i64" => go!(i64),
        "u32" => go!(u32),
        _ => die("bad --coord"),
    }
}
