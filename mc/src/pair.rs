//! Product of two systems: two live collections of the same kind (possibly with different capacity hints or
//! domains) used alternately.  A state is the pair of their states; every operation of either one is a
//! transition.  Everything an implementation keeps outside the object it belongs to - a `static`, a
//! `thread_local!`, a scratch buffer shared by all instances - is invisible while one object at a time is
//! driven from construction to its last operation; here a second object is alive, and is used, between any
//! two operations of the first.

use crate::engine::{Cx, Step, System};

pub const SECOND: u32 = 0x8000_0000;

pub struct PairSys<A: System, B: System> {
    pub a: A,
    pub b: B,
    /// both systems are configured identically: (x, y) and (y, x) have symmetric futures and are merged
    pub symmetric: bool,
    /// the deep audit (`--deep d`) enumerates unmerged suffixes of query operations only (of both objects, in
    /// every order): queries do not change the snapshot, so the merged search never continues *after* one -
    /// exactly what a memo shared between the instances needs ("A is asked, then B is asked")
    pub deep_queries: bool,
}

impl<A: System, B: System> System for PairSys<A, B> {
    type Obj = (A::Obj, B::Obj);
    fn name(&self) -> String {
        format!("{} || {}", self.a.name(), self.b.name())
    }
    fn prop(&self) -> &'static str {
        self.a.prop()
    }
    fn fresh(&self, cx: &mut Cx) -> Option<Self::Obj> {
        let x = self.a.fresh(cx)?;
        let y = self.b.fresh(cx)?;
        Some((x, y))
    }
    fn enabled(&self, o: &Self::Obj, out: &mut Vec<u32>) {
        self.a.enabled(&o.0, out);
        let n = out.len();
        self.b.enabled(&o.1, out);
        for x in out[n..].iter_mut() {
            debug_assert!(*x & SECOND == 0);
            *x |= SECOND;
        }
    }
    fn step(&self, o: &mut Self::Obj, st: Step, cx: &mut Cx) -> u32 {
        if st.op & SECOND != 0 {
            self.b.step(&mut o.1, Step { op: st.op & !SECOND, inj: st.inj }, cx)
        } else {
            self.a.step(&mut o.0, st, cx)
        }
    }
    fn check_state(&self, o: &Self::Obj, cx: &mut Cx) {
        // the observation suite of one object runs between two operations of the other one
        self.a.check_state(&o.0, cx);
        self.b.check_state(&o.1, cx);
        self.a.check_state(&o.0, cx);
    }
    fn canon(&self, o: &Self::Obj, out: &mut Vec<u8>) {
        let mut x = vec![];
        let mut y = vec![];
        self.a.canon(&o.0, &mut x);
        self.b.canon(&o.1, &mut y);
        if self.symmetric && y < x {
            std::mem::swap(&mut x, &mut y);
        }
        out.extend_from_slice(&(x.len() as u32).to_le_bytes());
        out.extend_from_slice(&x);
        out.extend_from_slice(&y);
    }
    fn raw_words(&self, o: &Self::Obj, out: &mut Vec<u64>) {
        if self.symmetric {
            // which of the two objects is "first" depends on the canonical order; raw words would split
            // symmetric states again, so they are left out here (single-object runs have them)
            return;
        }
        self.a.raw_words(&o.0, out);
        self.b.raw_words(&o.1, out);
    }
    fn nontrivial(&self, o: &Self::Obj) -> bool {
        self.a.nontrivial(&o.0) && self.b.nontrivial(&o.1)
    }
    fn query_ops(&self, o: &Self::Obj) -> Vec<u32> {
        let mut v = self.a.query_ops(&o.0);
        v.extend(self.b.query_ops(&o.1).into_iter().map(|x| x | SECOND));
        v
    }
    fn update_ops(&self, o: &Self::Obj) -> Vec<u32> {
        let mut v = self.a.update_ops(&o.0);
        v.extend(self.b.update_ops(&o.1).into_iter().map(|x| x | SECOND));
        v
    }
    fn deep_ops(&self, o: &Self::Obj) -> Vec<u32> {
        if self.deep_queries {
            return self.query_ops(o);
        }
        let mut v = self.a.deep_ops(&o.0);
        v.extend(self.b.deep_ops(&o.1).into_iter().map(|x| x | SECOND));
        v
    }
    fn fmt_op(&self, op: u32) -> String {
        if op & SECOND != 0 {
            format!("B:{}", self.b.fmt_op(op & !SECOND))
        } else {
            format!("A:{}", self.a.fmt_op(op))
        }
    }
    fn parse_op(&self, s: &str) -> Option<u32> {
        if let Some(r) = s.strip_prefix("B:") {
            Some(self.b.parse_op(r)? | SECOND)
        } else {
            self.a.parse_op(s.strip_prefix("A:")?)
        }
    }
    fn describe(&self, o: &Self::Obj) -> String {
        format!("A[{}] B[{}]", self.a.describe(&o.0), self.b.describe(&o.1))
    }
}
