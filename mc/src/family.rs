//! Deterministic families of longer histories (larger trees than the exhaustive universes reach):
//! insertion and deletion orders ascending / descending / inside-out / zigzag / strided, for a list
//! of sizes around the arena growth points.  Finite and enumerated completely; not a search.

pub fn orders(n: usize) -> Vec<(&'static str, Vec<usize>)> {
    let asc: Vec<usize> = (0..n).collect();
    let desc: Vec<usize> = (0..n).rev().collect();
    let mut inside = vec![];
    let mid = n / 2;
    for d in 0..=n {
        if d == 0 {
            if mid < n {
                inside.push(mid);
            }
            continue;
        }
        if mid + d < n {
            inside.push(mid + d);
        }
        if d <= mid {
            inside.push(mid - d);
        }
    }
    let mut zig = vec![];
    let (mut lo, mut hi) = (0usize, n);
    while lo < hi {
        zig.push(lo);
        lo += 1;
        if lo < hi {
            hi -= 1;
            zig.push(hi);
        }
    }
    // stride permutation with a multiplier coprime to n
    let mut m = 37 % n.max(1);
    while m == 0 || gcd(m, n) != 1 {
        m += 1;
    }
    let stride: Vec<usize> = (0..n).map(|i| (i * m + n / 3) % n).collect();
    // nearly sorted: ascending / descending with every block of three reversed (each new key lands one to three
    // places away from the end it approaches - the case tail fast paths and "mostly sorted input" shortcuts meet)
    let mut near_asc = vec![];
    for b in (0..n).step_by(3) {
        for i in (b..(b + 3).min(n)).rev() {
            near_asc.push(i);
        }
    }
    let near_desc: Vec<usize> = near_asc.iter().map(|&i| n - 1 - i).collect();
    vec![("asc", asc), ("desc", desc), ("inside-out", inside), ("zigzag", zig), ("stride", stride), ("near-asc", near_asc), ("near-desc", near_desc)]
}
fn gcd(a: usize, b: usize) -> usize {
    if b == 0 { a } else { gcd(b, a % b) }
}

pub const SIZES: [usize; 13] = [9, 15, 16, 17, 24, 31, 32, 33, 48, 64, 65, 100, 120];

/// map / set histories: insert n keys, delete half (alternating by key and by handle), re-insert,
/// delete everything in another order, clear, insert three.
pub fn m_histories(sizes: &[usize]) -> Vec<Vec<String>> {
    let mut out = vec![];
    for &n in sizes {
        let key = |i: usize| 2 * i + 1;
        for (_, ins) in orders(n) {
            for (_, del) in orders(n) {
                let mut h: Vec<String> = ins.iter().map(|&i| format!("Ins({})", key(i))).collect();
                let half = &del[..n / 2];
                for (j, &i) in half.iter().enumerate() {
                    h.push(if j % 2 == 0 { format!("Del({})", key(i)) } else { format!("DelH({})", key(i)) });
                }
                h.push(format!("Del({})", key(half[0])));
                for &i in half.iter().rev() {
                    h.push(format!("Ins({})", key(i)));
                }
                for (j, &i) in del.iter().enumerate() {
                    h.push(if j % 3 == 0 { format!("DelH({})", key(i)) } else { format!("Del({})", key(i)) });
                }
                for &i in ins.iter().take(n.min(12)) {
                    h.push(format!("Ins({})", key(i)));
                }
                h.push("Clear()".into());
                // second epoch on the cleared collection: refill completely (clear after growth must behave
                // like a new collection), remove a third, clear again, insert three
                for &i in del.iter() {
                    h.push(format!("Ins({})", key(i)));
                }
                for &i in ins.iter().step_by(3) {
                    h.push(format!("Del({})", key(i)));
                }
                h.push("Clear()".into());
                h.push("Clear()".into());
                // third epoch: twice as many entries as before the clear (keys on the even ids as well), so that
                // every slot the clear put on the free list is handed out again and the arena grows further
                for &i in ins.iter() {
                    h.push(format!("Ins({})", key(i)));
                    h.push(format!("Ins({})", key(i) + 1));
                }
                for &i in del.iter().step_by(2) {
                    h.push(format!("Del({})", key(i) + 1));
                }
                out.push(h);
            }
        }
    }
    out
}

/// map / set histories with explicit query operations in a scrambled order between the updates (and the
/// observation suite only every 16th step), so that a memo inside the collection is not refreshed by a
/// fixed sweep after every update.  `set`: neighbour-step queries are included.
pub fn m_histories_queries(sizes: &[usize], set: bool) -> Vec<Vec<String>> {
    let mut out = vec![];
    for &n in sizes {
        let key = |i: usize| 2 * i + 1;
        for (oi, (_, ins)) in orders(n).into_iter().enumerate() {
            for (di, (_, del)) in orders(n).into_iter().enumerate() {
                if (oi + di) % 2 == 1 {
                    continue;
                }
                let mut h: Vec<String> = vec![];
                let mut stored: Vec<usize> = vec![];
                let mut c = oi * 7 + di * 3;
                let mut q = |h: &mut Vec<String>, stored: &Vec<usize>, c: &mut usize| {
                    *c += 5;
                    let p = (*c * 7) % (2 * n + 1);
                    match *c % 4 {
                        0 => h.push(format!("QG({p})")),
                        1 => h.push(format!("QF({p})")),
                        2 if set && !stored.is_empty() => h.push(format!("QA({})", key(stored[*c % stored.len()]))),
                        3 if set && !stored.is_empty() => h.push(format!("QB({})", key(stored[*c % stored.len()]))),
                        _ => h.push(format!("QF({p})")),
                    }
                    // ask about a stored key as well (exact hits are what memos remember)
                    if !stored.is_empty() {
                        let k = key(stored[(*c / 3) % stored.len()]);
                        h.push(if *c % 2 == 0 { format!("QG({k})") } else { format!("QF({k})") });
                    }
                };
                for &i in ins.iter() {
                    h.push(format!("Ins({})", key(i)));
                    stored.push(i);
                    q(&mut h, &stored, &mut c);
                }
                for (j, &i) in del.iter().enumerate() {
                    if j % 3 == 2 || !stored.contains(&i) {
                        continue;
                    }
                    // ask about the in-order successor (or another stored key) before and after its neighbour
                    // is removed, and on every other round once more after the successor itself is removed
                    let succ = stored.iter().copied().filter(|x| *x > i).min();
                    let probe_i = match (succ, j % 4) {
                        (Some(sx), 0 | 1 | 2) => sx,
                        _ => stored[(c + j) % stored.len()],
                    };
                    let probe = key(probe_i);
                    h.push(format!("QG({probe})"));
                    h.push(format!("QF({probe})"));
                    h.push(if j % 2 == 0 { format!("Del({})", key(i)) } else { format!("DelH({})", key(i)) });
                    stored.retain(|x| *x != i);
                    if probe_i != i && j % 4 == 1 {
                        h.push(if j % 8 == 1 { format!("Del({probe})") } else { format!("DelH({probe})") });
                        stored.retain(|x| *x != probe_i);
                    }
                    if stored.is_empty() {
                        break;
                    }
                    if probe_i != i {
                        h.push(format!("QG({probe})"));
                        h.push(format!("QF({probe})"));
                    }
                    q(&mut h, &stored, &mut c);
                }
                h.push("QF(0)".into());
                h.push("Clear()".into());
                h.push(format!("QF({})", 2 * n));
                h.push(format!("QG({})", key(ins[0])));
                for &i in ins.iter().take(n.min(10)) {
                    h.push(format!("Ins({})", key(i)));
                    h.push(format!("QF({})", 2 * n));
                    h.push(format!("QG({})", key(ins[0])));
                }
                out.push(h);
            }
        }
    }
    out
}

/// expiring tree histories: insert n keys with expirations 1..=5 in a pattern, then advance the clock
/// step by step with spread-out queries of all four kinds and re-insertion of expired keys.
pub fn k_histories(sizes: &[usize], tmax: usize) -> Vec<Vec<String>> {
    let mut out = vec![];
    for &n in sizes {
        let key = |i: usize| 2 * i + 1;
        for (oi, (_, ins)) in orders(n).into_iter().enumerate() {
            for pat in 0..5usize {
                // patterns 0..2 interleave the expirations; 3 and 4 make them a monotone function of the key
                // (low keys expire first / last), so that one purge meets a long run of expired entries
                let exp = |i: usize| match pat {
                    3 => 1 + (i * tmax / n).min(tmax - 1),
                    4 => tmax - (i * tmax / n).min(tmax - 1),
                    _ => 1 + (i * (3 + 2 * pat) + oi) % tmax,
                };
                let mut h: Vec<String> = ins.iter().map(|&i| format!("Ins({},{})", key(i), exp(i))).collect();
                let step = (n / 6).max(1);
                for t in 1..=tmax {
                    h.push("Tick()".into());
                    let kinds = ["FLE", "FL", "GET", "FLEBY"];
                    let mut q = (t * 5 + pat) % step;
                    let mut c = 0;
                    while q <= 2 * n {
                        h.push(format!("{}({})", kinds[(c + t) % 4], q));
                        q += step + (c % 2);
                        c += 1;
                    }
                    // re-insert a few keys that have just expired, with the longest expiration
                    if t < tmax {
                        let mut re = 0;
                        for &i in ins.iter() {
                            if exp(i) == t && re < 3 {
                                h.push(format!("GET({})", key(i)));
                                h.push(format!("Ins({},{})", key(i), tmax));
                                re += 1;
                            }
                        }
                    }
                }
                // everything has expired now; touch every key so that the tree empties itself lazily,
                // then clear (of an already empty tree), restart the clock and run a second epoch
                for i in 0..n {
                    h.push(format!("GET({})", key(i)));
                }
                h.push("Clear()".into());
                h.push("ClearRestart()".into());
                for i in 0..n {
                    h.push(format!("GET({})", key(i)));
                }
                for &i in ins.iter().rev() {
                    h.push(format!("Ins({},{})", key(i), 1 + (i + pat) % 2));
                }
                h.push("FLE(0)".into());
                h.push(format!("FLE({})", 2 * n));
                h.push("Clear()".into());
                for &i in ins.iter() {
                    h.push(format!("Ins({},{})", key(i), 2 + (i + pat) % 3));
                    h.push(format!("Ins({},{})", key(i) + 1, 1 + (i + pat) % 3));
                }
                h.push("Tick()".into());
                h.push("Tick()".into());
                for i in (0..n).step_by(2) {
                    h.push(format!("GET({})", key(i)));
                }
                out.push(h);
            }
        }
    }
    out
}

/// expiring tree, second family: inserts that descend through nodes which have expired but were never
/// touched by a query (so lazy removal, two-children removals and the repairs they trigger happen inside
/// `insert`), in three waves separated by clock ticks, followed by re-insertion of expired keys.
pub fn k_histories_waves(sizes: &[usize], tmax: usize) -> Vec<Vec<String>> {
    let mut out = vec![];
    for &n in sizes {
        let key = |i: usize| 2 * i + 1;
        for (oi, (_, ins)) in orders(n).into_iter().enumerate() {
            for pat in 0..8usize {
                let wave = |i: usize| (i * (1 + pat % 3) + pat / 3) % 3;
                let exp0 = |i: usize| 1 + (i * (2 * pat + 3) + oi) % 3;
                let mut h: Vec<String> = vec![];
                for w in 0..3usize {
                    for &i in ins.iter() {
                        if wave(i) == w {
                            let e = (w + exp0(i)).min(tmax + 1);
                            h.push(format!("Ins({},{})", key(i), e));
                        }
                    }
                    h.push("Tick()".into());
                }
                // clock is 3 now: re-insert keys whose entry has expired, without looking them up first
                for &i in ins.iter() {
                    let e = (wave(i) + exp0(i)).min(tmax + 1);
                    if e <= 3 {
                        h.push(format!("Ins({},{})", key(i), tmax + 1));
                    }
                }
                let step = (n / 5).max(1);
                let mut q = pat % step;
                while q <= 2 * n {
                    h.push(format!("FLEBY({q})"));
                    h.push(format!("GET({q})"));
                    q += step;
                }
                out.push(h);
            }
        }
    }
    out
}

/// segment tree histories: many values in one bucket list (past the buffer growth points 4, 8),
/// staggered expirations, partially consumed queries, stale-clock patterns around clear + restart,
/// and pairs of overlapping ranges.  `nr` = number of ranges in the explorer's alphabet.
pub fn s_histories(nr: usize) -> Vec<Vec<String>> {
    let mut out = vec![];
    for ri in 0..nr {
        for k in [1usize, 2, 3, 4, 5, 6, 8, 9, 12, 16, 17, 20, 33] {
            let mut h: Vec<String> = (0..k).map(|i| format!("Ins(r{ri},{})", i % 4)).collect();
            for t in 0..=4 {
                h.push(format!("Q(r0,{t},all)"));
                h.push(format!("Q(r{ri},{t},1)"));
                h.push(format!("Q(r{ri},{t},all)"));
            }
            out.push(h);
            let mut h: Vec<String> = (0..k).map(|i| format!("Ins(r{ri},{})", (i * 3 + 1) % 5)).collect();
            for t in [1usize, 1, 3, 4] {
                h.push(format!("Q(r{ri},{t},2)"));
                h.push(format!("Ins(r{ri},{})", t + 2));
                h.push(format!("Q(r{ri},{t},all)"));
            }
            h.push("Clear()".into());
            h.push(format!("Q(r0,4,all)"));
            h.push(format!("Ins(r{ri},9)"));
            h.push(format!("Q(r{ri},5,all)"));
            out.push(h);
        }
        for n in 1..=9usize {
            let mut h = vec!["Q(r0,10,all)".to_string(), format!("Ins(r{ri},12)"), format!("Q(r{ri},11,all)"), "ClearRestart()".to_string()];
            for _ in 0..n {
                h.push(format!("Ins(r{ri},5)"));
            }
            h.push(format!("Q(r{ri},0,all)"));
            h.push("Q(r0,5,all)".into());
            h.push("Q(r0,6,all)".into());
            out.push(h);
        }
    }
    for ra in 0..nr {
        for rb in 0..nr {
            if ra == rb {
                continue;
            }
            // a crowded list that expires as a whole next to another list with an expired copy
            for n in [15usize, 16, 17, 33] {
                for first in 0..2 {
                    let mut h: Vec<String> = vec![];
                    if first == 0 {
                        h.push(format!("Ins(r{rb},1)"));
                    }
                    for _ in 0..n {
                        h.push(format!("Ins(r{ra},1)"));
                    }
                    if first == 1 {
                        h.push(format!("Ins(r{rb},1)"));
                    }
                    h.push(format!("Ins(r{rb},7)"));
                    h.push("Q(r0,5,all)".into());
                    h.push("Q(r0,5,all)".into());
                    h.push(format!("Q(r{rb},6,all)"));
                    h.push("Q(r0,8,all)".into());
                    out.push(h);
                }
            }
        }
    }
    for ra in 0..nr {
        for rb in 0..nr {
            for n in [3usize, 4, 5, 8, 16, 17, 20, 33] {
                let mut h: Vec<String> = (0..n).map(|i| format!("Ins(r{ra},{})", 1 + i % 3)).collect();
                h.push("Q(r0,1,all)".into());
                h.push(format!("Ins(r{rb},3)"));
                h.push(format!("Q(r{rb},1,all)"));
                h.push(format!("Q(r{ra},2,2)"));
                h.push(format!("Ins(r{ra},9)"));
                h.push(format!("Q(r{rb},3,all)"));
                h.push(format!("Q(r{ra},4,all)"));
                h.push("Q(r0,9,all)".into());
                h.push("Q(r0,10,all)".into());
                out.push(h);
            }
        }
    }
    out
}
