//! Explorer M: ordered map / ordered set, tree and sorted-list variants.

use crate::engine::{Cx, Step, System, NO_INJ};
use crate::inv::{self, Mode};
use crate::rt::{self, callback, guard, Caught};
use i_tree::map::list::MapList;
use i_tree::map::sort::MapCollection;
use i_tree::map::tree::MapTree;
use i_tree::set::list::SetList;
use i_tree::set::sort::{KeyValue, SetCollection};
use i_tree::set::tree::SetTree;
use i_tree::verif::{ArenaSnap, SlotSnap};
use i_tree::EMPTY_REF;
use std::cmp::Ordering;
use std::collections::BTreeMap;
use std::marker::PhantomData;

// ---------------------------------------------------------------------------
// instrumented key and payload types
// ---------------------------------------------------------------------------

#[derive(Clone, Copy, Default, Debug)]
pub struct IKey(pub u8);
impl PartialEq for IKey {
    fn eq(&self, o: &Self) -> bool {
        callback();
        self.0 == o.0
    }
}
impl Eq for IKey {}
impl PartialOrd for IKey {
    fn partial_cmp(&self, o: &Self) -> Option<Ordering> {
        callback();
        Some(self.0.cmp(&o.0))
    }
}
impl Ord for IKey {
    fn cmp(&self, o: &Self) -> Ordering {
        callback();
        self.0.cmp(&o.0)
    }
}

pub trait Pay: Clone + Default + PartialEq + std::fmt::Debug + Send + Sync + 'static {
    const NAME: &'static str;
    fn mk(key: u8, bit: bool) -> Self;
    fn code(&self) -> u32;
}
impl Pay for u16 {
    const NAME: &'static str = "u16";
    fn mk(key: u8, bit: bool) -> Self {
        0x100 | ((key as u16) << 1) | bit as u16
    }
    fn code(&self) -> u32 {
        *self as u32
    }
}
/// Heap-backed value with a deep (allocating) clone.
#[derive(Clone, Default, PartialEq, Debug)]
pub struct HeapVal(pub Vec<u8>);
impl Pay for HeapVal {
    const NAME: &'static str = "HeapVal";
    fn mk(key: u8, bit: bool) -> Self {
        HeapVal(vec![1, key, bit as u8, key ^ 0x5a])
    }
    fn code(&self) -> u32 {
        let mut c = self.0.len() as u32;
        for b in &self.0 {
            c = c.wrapping_mul(257).wrapping_add(*b as u32);
        }
        c
    }
}

/// Plain 40-byte value (no destructor, bigger than a cache-friendly "small value"): code paths chosen by
/// `size_of::<V>()` or `needs_drop::<V>()` see the other side of their condition than with `u16` / `HeapVal`.
#[derive(Clone, Default, PartialEq, Debug)]
pub struct WideVal(pub [u64; 5]);
impl Pay for WideVal {
    const NAME: &'static str = "WideVal";
    fn mk(key: u8, bit: bool) -> Self {
        let k = key as u64;
        WideVal([0x100 | (k << 1) | bit as u64, k.wrapping_mul(0x9e37_79b9_7f4a_7c15), !k, k ^ 0x5a5a, 7])
    }
    fn code(&self) -> u32 {
        let mut c = 0u64;
        for w in &self.0 {
            c = c.wrapping_mul(0x100_0000_01b3).wrapping_add(*w);
        }
        (c ^ (c >> 32)) as u32
    }
}

/// Heap-backed value whose `Clone` and `Default` are user callbacks in the sense of the fault enumeration: they are
/// counted, and a panic can be injected at each of them (the library clones values when a two-children entry is
/// removed and when the arena grows).  Clone and Default are not among the callbacks C18 lists, so only the
/// process outcome of everything that follows is judged (C10, crash-only): a caught panic of the caller's own
/// `Clone` must not turn a later in-contract call into an out-of-bounds access, an assertion failure or a hang.
#[derive(PartialEq, Debug)]
pub struct FaultVal(pub Vec<u8>);
impl Clone for FaultVal {
    fn clone(&self) -> Self {
        callback();
        FaultVal(self.0.clone())
    }
}
impl Default for FaultVal {
    fn default() -> Self {
        callback();
        FaultVal(Vec::new())
    }
}
impl Drop for FaultVal {
    fn drop(&mut self) {
        // a destructor is user code as well (a stale value is dropped when its slot is reused); never while
        // another panic is already unwinding - that would abort the process by itself
        if !std::thread::panicking() {
            callback();
        }
    }
}
impl Pay for FaultVal {
    const NAME: &'static str = "FaultVal";
    fn mk(key: u8, bit: bool) -> Self {
        FaultVal(vec![1, key, bit as u8, key ^ 0x5a])
    }
    fn code(&self) -> u32 {
        let mut c = self.0.len() as u32;
        for b in &self.0 {
            c = c.wrapping_mul(257).wrapping_add(*b as u32);
        }
        c
    }
}

/// Value that owns a tracked resource: every instance (made, cloned or defaulted) has a unique id in a
/// thread-local registry; dropping an id twice or reading a dropped instance raises a flag that the
/// explorer turns into a violation.  Makes a bitwise duplication of a value (two owners) observable
/// deterministically instead of relying on the allocator to notice a double free.
#[derive(Debug)]
pub struct TrackVal {
    key: u8,
    bit: bool,
    id: u64,
}
thread_local! {
    static TRACK_LIVE: std::cell::RefCell<std::collections::HashSet<u64>> = std::cell::RefCell::new(std::collections::HashSet::new());
    static TRACK_NEXT: std::cell::Cell<u64> = const { std::cell::Cell::new(1) };
    static TRACK_FLAG: std::cell::Cell<u8> = const { std::cell::Cell::new(0) };
}
fn track_new() -> u64 {
    let id = TRACK_NEXT.with(|n| {
        let v = n.get();
        n.set(v + 1);
        v
    });
    TRACK_LIVE.with(|l| l.borrow_mut().insert(id));
    id
}
/// 0 = nothing, 1 = a value was dropped twice, 2 = a dropped value was read
pub fn track_take_flag() -> u8 {
    TRACK_FLAG.with(|f| f.replace(0))
}
impl Default for TrackVal {
    fn default() -> Self {
        TrackVal { key: 0, bit: false, id: track_new() }
    }
}
impl Clone for TrackVal {
    fn clone(&self) -> Self {
        if !TRACK_LIVE.with(|l| l.borrow().contains(&self.id)) {
            TRACK_FLAG.with(|f| f.set(2));
        }
        TrackVal { key: self.key, bit: self.bit, id: track_new() }
    }
}
impl Drop for TrackVal {
    fn drop(&mut self) {
        let was = TRACK_LIVE.try_with(|l| l.borrow_mut().remove(&self.id)).unwrap_or(true);
        if !was {
            let _ = TRACK_FLAG.try_with(|f| f.set(1));
        }
    }
}
impl PartialEq for TrackVal {
    fn eq(&self, o: &Self) -> bool {
        self.key == o.key && self.bit == o.bit
    }
}
impl Pay for TrackVal {
    const NAME: &'static str = "TrackVal";
    fn mk(key: u8, bit: bool) -> Self {
        TrackVal { key, bit, id: track_new() }
    }
    fn code(&self) -> u32 {
        if !TRACK_LIVE.with(|l| l.borrow().contains(&self.id)) {
            TRACK_FLAG.with(|f| f.set(2));
        }
        0x100 | ((self.key as u32) << 1) | self.bit as u32
    }
}

#[derive(Clone, Default, Debug)]
pub struct SVal<P> {
    pub key: IKey,
    pub pay: P,
}
impl<P> KeyValue<IKey> for SVal<P> {
    fn key(&self) -> &IKey {
        callback();
        &self.key
    }
}

// ---------------------------------------------------------------------------
// subject adapter
// ---------------------------------------------------------------------------

pub enum MSnap {
    Tree(ArenaSnap<(u8, u32)>),
    List(Vec<(u8, u32)>),
}

pub trait MSub: Sized {
    type P: Pay;
    const NAME: &'static str;
    const IS_SET: bool;
    const IS_TREE: bool;
    const HAS_PAYLOAD: bool;
    fn name() -> String;
    fn new(cap: usize) -> Self;
    fn is_empty(&self) -> bool;
    fn insert(&mut self, k: u8, p: Self::P);
    fn delete(&mut self, k: u8);
    fn delete_by_index(&mut self, h: u32);
    /// (key carried by the stored value or the probe for maps, payload code)
    fn get(&self, k: u8) -> Option<(u8, u32)>;
    fn at(&self, h: u32) -> (Option<u8>, u32);
    fn set_at(&mut self, h: u32, p: Self::P);
    fn fil(&self, k: u8) -> u32;
    fn fil_by(&self, p: u8) -> u32;
    fn after(&self, _h: u32) -> u32 {
        unreachable!()
    }
    fn before(&self, _h: u32) -> u32 {
        unreachable!()
    }
    fn clear(&mut self);
    fn snap(&self) -> MSnap;
}

fn conv<T>(s: ArenaSnap<T>, f: impl Fn(&T) -> (u8, u32)) -> ArenaSnap<(u8, u32)> {
    ArenaSnap {
        root: s.root,
        slots: s.slots.iter().map(|x| SlotSnap { parent: x.parent, left: x.left, right: x.right, black: x.black, payload: f(&x.payload) }).collect(),
        unused: s.unused,
        unused_capacity: s.unused_capacity,
    }
}

impl<P: Pay> MSub for MapTree<IKey, P> {
    type P = P;
    const NAME: &'static str = "MapTree";
    const IS_SET: bool = false;
    const IS_TREE: bool = true;
    const HAS_PAYLOAD: bool = true;
    fn name() -> String {
        format!("MapTree<IKey,{}>", P::NAME)
    }
    fn new(cap: usize) -> Self {
        MapTree::new(cap)
    }
    fn is_empty(&self) -> bool {
        MapCollection::is_empty(self)
    }
    fn insert(&mut self, k: u8, p: P) {
        MapCollection::insert(self, IKey(k), p)
    }
    fn delete(&mut self, k: u8) {
        MapCollection::delete(self, IKey(k))
    }
    fn delete_by_index(&mut self, h: u32) {
        MapCollection::delete_by_index(self, h)
    }
    fn get(&self, k: u8) -> Option<(u8, u32)> {
        MapCollection::get_value(self, IKey(k)).map(|v| (k, v.code()))
    }
    fn at(&self, h: u32) -> (Option<u8>, u32) {
        (None, MapCollection::value_by_index(self, h).code())
    }
    fn set_at(&mut self, h: u32, p: P) {
        *MapCollection::value_by_index_mut(self, h) = p;
    }
    fn fil(&self, k: u8) -> u32 {
        MapCollection::first_index_less(self, IKey(k))
    }
    fn fil_by(&self, p: u8) -> u32 {
        MapCollection::first_index_less_by(self, |k: IKey| {
            callback();
            k.0.cmp(&p)
        })
    }
    fn clear(&mut self) {
        MapCollection::clear(self)
    }
    fn snap(&self) -> MSnap {
        MSnap::Tree(conv(self.verif_snapshot(), |(k, v)| (k.0, v.code())))
    }
}

impl<P: Pay> MSub for MapList<IKey, P> {
    type P = P;
    const NAME: &'static str = "MapList";
    const IS_SET: bool = false;
    const IS_TREE: bool = false;
    const HAS_PAYLOAD: bool = true;
    fn name() -> String {
        format!("MapList<IKey,{}>", P::NAME)
    }
    fn new(cap: usize) -> Self {
        MapList::new(cap)
    }
    fn is_empty(&self) -> bool {
        MapCollection::is_empty(self)
    }
    fn insert(&mut self, k: u8, p: P) {
        MapCollection::insert(self, IKey(k), p)
    }
    fn delete(&mut self, k: u8) {
        MapCollection::delete(self, IKey(k))
    }
    fn delete_by_index(&mut self, h: u32) {
        MapCollection::delete_by_index(self, h)
    }
    fn get(&self, k: u8) -> Option<(u8, u32)> {
        MapCollection::get_value(self, IKey(k)).map(|v| (k, v.code()))
    }
    fn at(&self, h: u32) -> (Option<u8>, u32) {
        (None, MapCollection::value_by_index(self, h).code())
    }
    fn set_at(&mut self, h: u32, p: P) {
        *MapCollection::value_by_index_mut(self, h) = p;
    }
    fn fil(&self, k: u8) -> u32 {
        MapCollection::first_index_less(self, IKey(k))
    }
    fn fil_by(&self, p: u8) -> u32 {
        MapCollection::first_index_less_by(self, |k: IKey| {
            callback();
            k.0.cmp(&p)
        })
    }
    fn clear(&mut self) {
        MapCollection::clear(self)
    }
    fn snap(&self) -> MSnap {
        MSnap::List(self.verif_snapshot().iter().map(|(k, v)| (k.0, v.code())).collect())
    }
}

impl<P: Pay> MSub for SetTree<IKey, SVal<P>> {
    type P = P;
    const NAME: &'static str = "SetTree";
    const IS_SET: bool = true;
    const IS_TREE: bool = true;
    const HAS_PAYLOAD: bool = true;
    fn name() -> String {
        format!("SetTree<IKey,SVal<{}>>", P::NAME)
    }
    fn new(cap: usize) -> Self {
        SetTree::new(cap)
    }
    fn is_empty(&self) -> bool {
        SetCollection::is_empty(self)
    }
    fn insert(&mut self, k: u8, p: P) {
        SetCollection::insert(self, SVal { key: IKey(k), pay: p })
    }
    fn delete(&mut self, k: u8) {
        SetCollection::delete(self, &IKey(k))
    }
    fn delete_by_index(&mut self, h: u32) {
        SetCollection::delete_by_index(self, h)
    }
    fn get(&self, k: u8) -> Option<(u8, u32)> {
        SetCollection::get_value(self, &IKey(k)).map(|v| (v.key.0, v.pay.code()))
    }
    fn at(&self, h: u32) -> (Option<u8>, u32) {
        let v = SetCollection::value_by_index(self, h);
        (Some(v.key.0), v.pay.code())
    }
    fn set_at(&mut self, h: u32, p: P) {
        SetCollection::value_by_index_mut(self, h).pay = p;
    }
    fn fil(&self, k: u8) -> u32 {
        SetCollection::first_index_less(self, &IKey(k))
    }
    fn fil_by(&self, p: u8) -> u32 {
        SetCollection::first_index_less_by(self, |k: &IKey| {
            callback();
            k.0.cmp(&p)
        })
    }
    fn after(&self, h: u32) -> u32 {
        SetCollection::index_after(self, h)
    }
    fn before(&self, h: u32) -> u32 {
        SetCollection::index_before(self, h)
    }
    fn clear(&mut self) {
        SetCollection::clear(self)
    }
    fn snap(&self) -> MSnap {
        MSnap::Tree(conv(self.verif_snapshot(), |v| (v.key.0, v.pay.code())))
    }
}

impl<P: Pay> MSub for SetList<SVal<P>> {
    type P = P;
    const NAME: &'static str = "SetList";
    const IS_SET: bool = true;
    const IS_TREE: bool = false;
    const HAS_PAYLOAD: bool = true;
    fn name() -> String {
        format!("SetList<SVal<{}>>", P::NAME)
    }
    fn new(cap: usize) -> Self {
        SetList::new(cap)
    }
    fn is_empty(&self) -> bool {
        SetCollection::<IKey, _>::is_empty(self)
    }
    fn insert(&mut self, k: u8, p: P) {
        SetCollection::<IKey, _>::insert(self, SVal { key: IKey(k), pay: p })
    }
    fn delete(&mut self, k: u8) {
        SetCollection::<IKey, _>::delete(self, &IKey(k))
    }
    fn delete_by_index(&mut self, h: u32) {
        SetCollection::<IKey, _>::delete_by_index(self, h)
    }
    fn get(&self, k: u8) -> Option<(u8, u32)> {
        SetCollection::<IKey, _>::get_value(self, &IKey(k)).map(|v| (v.key.0, v.pay.code()))
    }
    fn at(&self, h: u32) -> (Option<u8>, u32) {
        let v = SetCollection::<IKey, _>::value_by_index(self, h);
        (Some(v.key.0), v.pay.code())
    }
    fn set_at(&mut self, h: u32, p: P) {
        SetCollection::<IKey, _>::value_by_index_mut(self, h).pay = p;
    }
    fn fil(&self, k: u8) -> u32 {
        SetCollection::<IKey, _>::first_index_less(self, &IKey(k))
    }
    fn fil_by(&self, p: u8) -> u32 {
        SetCollection::<IKey, _>::first_index_less_by(self, |k: &IKey| {
            callback();
            k.0.cmp(&p)
        })
    }
    fn after(&self, h: u32) -> u32 {
        SetCollection::<IKey, _>::index_after(self, h)
    }
    fn before(&self, h: u32) -> u32 {
        SetCollection::<IKey, _>::index_before(self, h)
    }
    fn clear(&mut self) {
        SetCollection::<IKey, _>::clear(self)
    }
    fn snap(&self) -> MSnap {
        MSnap::List(self.verif_snapshot().iter().map(|v| (v.key.0, v.pay.code())).collect())
    }
}

/// Bare integers as set values (`KeyValue<u8> for u8` of the library itself; not instrumented).
impl MSub for SetTree<u8, u8> {
    type P = u16;
    const NAME: &'static str = "SetTree";
    const IS_SET: bool = true;
    const IS_TREE: bool = true;
    const HAS_PAYLOAD: bool = false;
    fn name() -> String {
        "SetTree<u8,u8>".into()
    }
    fn new(cap: usize) -> Self {
        SetTree::new(cap)
    }
    fn is_empty(&self) -> bool {
        SetCollection::is_empty(self)
    }
    fn insert(&mut self, k: u8, _p: u16) {
        SetCollection::insert(self, k)
    }
    fn delete(&mut self, k: u8) {
        SetCollection::delete(self, &k)
    }
    fn delete_by_index(&mut self, h: u32) {
        SetCollection::delete_by_index(self, h)
    }
    fn get(&self, k: u8) -> Option<(u8, u32)> {
        SetCollection::get_value(self, &k).map(|v| (*v, 0))
    }
    fn at(&self, h: u32) -> (Option<u8>, u32) {
        (Some(*SetCollection::value_by_index(self, h)), 0)
    }
    fn set_at(&mut self, _h: u32, _p: u16) {}
    fn fil(&self, k: u8) -> u32 {
        SetCollection::first_index_less(self, &k)
    }
    fn fil_by(&self, p: u8) -> u32 {
        SetCollection::first_index_less_by(self, |k: &u8| k.cmp(&p))
    }
    fn after(&self, h: u32) -> u32 {
        SetCollection::index_after(self, h)
    }
    fn before(&self, h: u32) -> u32 {
        SetCollection::index_before(self, h)
    }
    fn clear(&mut self) {
        SetCollection::clear(self)
    }
    fn snap(&self) -> MSnap {
        MSnap::Tree(conv(self.verif_snapshot(), |v| (*v, 0)))
    }
}

// ---------------------------------------------------------------------------
// the system
// ---------------------------------------------------------------------------

#[derive(Clone, Default, Debug)]
pub struct MFlags {
    // alphabet
    pub wr: bool,
    pub delh: bool,
    pub del: bool,
    pub clear: bool,
    /// query operations (QF, QG, QA, QB) are transitions too: with the raw-word state identity a query that
    /// changes hidden state (a memo, a cached slot) leads to a new state, and the search goes on from there
    pub qops: bool,
    // oracles
    pub o_ref: bool,
    pub o_handle: bool,
    pub o_neigh: bool,
    pub o_rb: bool,
    pub o_arena: bool,
    pub o_hstab: bool,
    pub o_twin: bool,
    pub o_pos: bool,
    pub histogram: bool,
}

pub struct MSys<S: MSub> {
    pub n: u8,
    pub hint: usize,
    pub mode: Mode,
    pub f: MFlags,
    pub prop: &'static str,
    pub inj_budget: u32,
    pub _p: PhantomData<fn() -> S>,
}

pub struct MObj<S: MSub> {
    pub sub: S,
    pub model: BTreeMap<u8, bool>,
    pub inj_used: u32,
}

const K_INS: u32 = 1;
const K_DEL: u32 = 2;
const K_DELH: u32 = 3;
const K_WR: u32 = 4;
const K_CLEAR: u32 = 5;
/// query operations as transitions (they do not change the model; used by the deep audit, where the ORDER of
/// queries matters): predecessor handle by key and by comparator, and exact lookup
const K_QF: u32 = 6;
const K_QG: u32 = 7;
/// neighbour steps from the handle of a stored key (sets)
const K_QA: u32 = 8;
const K_QB: u32 = 9;

fn op(kind: u32, a: u8) -> u32 {
    (kind << 8) | a as u32
}

impl<S: MSub> MSys<S> {
    fn probes(&self) -> u8 {
        2 * self.n
    }
    fn code(&self, k: u8, bit: bool) -> u32 {
        if S::HAS_PAYLOAD { S::P::mk(k, bit).code() } else { 0 }
    }
    fn pred(model: &BTreeMap<u8, bool>, p: u8) -> Option<(u8, bool)> {
        model.range(..=p).next_back().map(|(k, b)| (*k, *b))
    }
    fn buffer_bound(&self) -> usize {
        8 * (self.n as usize + 1) + self.hint.max(8)
    }

    /// does the subject answer every lookup exactly as `model` prescribes?
    fn matches(&self, sub: &S, model: &BTreeMap<u8, bool>) -> bool {
        if sub.is_empty() != model.is_empty() {
            return false;
        }
        for q in 0..=self.probes() {
            let exp = model.get(&q).map(|b| (q, self.code(q, *b)));
            if sub.get(q) != exp {
                return false;
            }
        }
        true
    }

    fn state_checks(&self, o: &MObj<S>, cx: &mut Cx) {
        let prop = self.prop;
        let sub = &o.sub;
        let model = &o.model;
        cx.evals += 1;
        if self.f.o_ref {
            if sub.is_empty() != model.is_empty() {
                cx.violate(prop, "is_empty", format!("is_empty() = {} but the model holds {} keys", sub.is_empty(), model.len()));
            }
            // ascending, then descending: a result must not depend on which lookup came before it
            for q in (0..=self.probes()).chain((0..=self.probes()).rev()) {
                let exp = model.get(&q).map(|b| (q, self.code(q, *b)));
                let got = sub.get(q);
                if got != exp {
                    cx.violate(prop, "get_value", format!("get_value({q}) = {got:?}, reference says {exp:?} (key, payload code)"));
                    return;
                }
            }
        }
        if self.f.o_handle {
            // ascending, then descending (query-order independence)
            for p in (0..=self.probes()).chain((0..=self.probes()).rev()) {
                let h = sub.fil(p);
                let h2 = sub.fil_by(p);
                match Self::pred(model, p) {
                    None => {
                        if h != EMPTY_REF || h2 != EMPTY_REF {
                            cx.violate(prop, "handle", format!("first_index_less({p}) = {h}, _by = {h2}, but no stored key is <= {p}"));
                            return;
                        }
                    }
                    Some((k, b)) => {
                        if h == EMPTY_REF || h != h2 {
                            cx.violate(prop, "handle", format!("first_index_less({p}) = {h}, first_index_less_by = {h2}; predecessor key is {k}"));
                            return;
                        }
                        let (vk, vc) = sub.at(h);
                        if vc != self.code(k, b) || vk.map(|x| x != k).unwrap_or(false) {
                            cx.violate(prop, "handle", format!("handle {h} for probe {p} dereferences to ({vk:?},{vc}), expected entry of key {k}"));
                            return;
                        }
                        if self.f.o_pos && !S::IS_TREE {
                            let rank = model.range(..k).count() as u32;
                            if h != rank {
                                cx.violate(prop, "position", format!("list handle for probe {p} is {h}, expected position {rank}"));
                                return;
                            }
                        }
                    }
                }
            }
        }
        if self.f.o_neigh && S::IS_SET {
            let keys: Vec<u8> = model.keys().copied().collect();
            for (i, &k) in keys.iter().enumerate() {
                let h = sub.fil(k);
                if h == EMPTY_REF {
                    cx.violate(prop, "neighbour", format!("no handle for stored key {k}"));
                    return;
                }
                let a = sub.after(h);
                let want = keys.get(i + 1).copied();
                let got = if a == EMPTY_REF { None } else { sub.at(a).0 };
                if (a == EMPTY_REF) != want.is_none() || got != want {
                    cx.violate(prop, "index_after", format!("index_after(handle of {k}) = {a} -> key {got:?}, expected {want:?}"));
                    return;
                }
                let b = sub.before(h);
                let want = if i > 0 { Some(keys[i - 1]) } else { None };
                let got = if b == EMPTY_REF { None } else { sub.at(b).0 };
                if (b == EMPTY_REF) != want.is_none() || got != want {
                    cx.violate(prop, "index_before", format!("index_before(handle of {k}) = {b} -> key {got:?}, expected {want:?}"));
                    return;
                }
            }
            // full walks
            if let (Some(&mn), Some(&mx)) = (keys.first(), keys.last()) {
                let mut h = sub.fil(mn);
                let mut seen = vec![];
                while h != EMPTY_REF && seen.len() <= keys.len() {
                    seen.push(sub.at(h).0.unwrap_or(255));
                    h = sub.after(h);
                }
                if seen != keys {
                    cx.violate(prop, "walk_forward", format!("successor walk from the smallest value gives {seen:?}, stored keys are {keys:?}"));
                    return;
                }
                let mut h = sub.fil(mx);
                let mut seen = vec![];
                while h != EMPTY_REF && seen.len() <= keys.len() {
                    seen.push(sub.at(h).0.unwrap_or(255));
                    h = sub.before(h);
                }
                seen.reverse();
                if seen != keys {
                    cx.violate(prop, "walk_backward", format!("predecessor walk from the largest value gives {seen:?} (reversed), stored keys are {keys:?}"));
                    return;
                }
            }
        }
        if self.f.o_rb || self.f.o_arena {
            match sub.snap() {
                MSnap::Tree(s) => {
                    let a = inv::analyze(&s, |p| p.0);
                    cx.class("shapes", inv::shape_hash(&s, &a));
                    if self.f.o_rb {
                        if let Some(e) = a.rb_errors.first() {
                            cx.violate(prop, "structure", e.clone());
                            return;
                        }
                        if a.inorder.len() != model.len() {
                            cx.violate(prop, "structure", format!("{} entries linked, {} keys stored", a.inorder.len(), model.len()));
                            return;
                        }
                    }
                    if self.f.o_arena {
                        if let Some(e) = a.arena_errors.first() {
                            cx.violate(prop, "arena", e.clone());
                            return;
                        }
                        if a.walkable && a.inorder.len() + s.unused.len() + 1 != s.slots.len() {
                            cx.violate(prop, "arena", format!("{} linked + {} free + sentinel != {} slots", a.inorder.len(), s.unused.len(), s.slots.len()));
                            return;
                        }
                        if s.slots.len() > self.buffer_bound() {
                            cx.violate(prop, "growth", format!("buffer holds {} slots, bound for this universe is {}", s.slots.len(), self.buffer_bound()));
                            return;
                        }
                    }
                }
                MSnap::List(v) => {
                    if self.f.o_rb {
                        if v.windows(2).any(|w| w[0].0 >= w[1].0) {
                            cx.violate(prop, "list-order", format!("list buffer not strictly sorted: {v:?}"));
                            return;
                        }
                        if v.len() != model.len() {
                            cx.violate(prop, "list-len", format!("list holds {} entries, model {}", v.len(), model.len()));
                        }
                    }
                }
            }
        }
    }

    fn do_step(&self, o: &mut MObj<S>, st: Step, cx: &mut Cx) -> u32 {
        let prop = self.prop;
        let kind = st.op >> 8;
        let a = (st.op & 0xff) as u8;
        let inj = if st.inj == NO_INJ { None } else { Some(st.inj) };
        let before = if inj.is_some() { Some(o.model.clone()) } else { None };
        let mut after_model = o.model.clone();
        let mut ncb = 0;
        let _ = ncb;
        let res: Result<(), Caught> = match kind {
            K_INS => {
                let mut held: Vec<(u8, u32, (Option<u8>, u32))> = vec![];
                if self.f.o_hstab && inj.is_none() {
                    for (&k, _) in o.model.iter() {
                        let h = o.sub.fil(k);
                        if h != EMPTY_REF {
                            held.push((k, h, o.sub.at(h)));
                        }
                    }
                }
                after_model.insert(a, false);
                rt::cb_reset(inj);
                let sub = &mut o.sub;
                let r = guard(|| sub.insert(a, S::P::mk(a, false)));
                ncb = rt::cb_count();
                if r.is_ok() && self.f.o_hstab {
                    for (k, h, v) in held {
                        let now = guard(|| (o.sub.at(h), o.sub.fil(k)));
                        match now {
                            Ok((v2, h2)) => {
                                if v2 != v || h2 != h {
                                    cx.violate(prop, "handle-stability", format!("after insert({a}) handle {h} of key {k} reads {v2:?} (was {v:?}); first_index_less({k}) = {h2}"));
                                    break;
                                }
                            }
                            Err(_) => {
                                cx.violate(prop, "handle-stability", format!("dereferencing handle {h} of key {k} after insert({a}) panicked: {}", rt::last_panic()));
                                break;
                            }
                        }
                    }
                    cx.count("handles_rechecked");
                }
                r
            }
            K_DEL => {
                let present = o.model.contains_key(&a);
                after_model.remove(&a);
                let mut pre = vec![];
                if !present && self.f.o_ref && inj.is_none() && !cx.muted {
                    self.canon_sub(&o.sub, &mut pre);
                }
                if present && self.f.histogram && !cx.muted && inj.is_none() {
                    self.note_removal(&o.sub, a, cx);
                }
                rt::cb_reset(inj);
                let sub = &mut o.sub;
                let r = guard(|| sub.delete(a));
                ncb = rt::cb_count();
                if r.is_ok() && !pre.is_empty() {
                    let mut post = vec![];
                    self.canon_sub(&o.sub, &mut post);
                    if pre != post {
                        cx.violate(prop, "delete-absent", format!("delete({a}) of an absent key changed the collection"));
                    }
                    cx.count("delete_absent_checked");
                }
                r
            }
            K_DELH | K_WR => {
                let (k, b) = Self::pred(&o.model, a).expect("enabled only with a predecessor");
                if kind == K_DELH {
                    after_model.remove(&k);
                } else {
                    after_model.insert(k, !b);
                }
                if kind == K_DELH && self.f.histogram && !cx.muted && inj.is_none() {
                    self.note_removal(&o.sub, k, cx);
                }
                rt::cb_reset(inj);
                let sub = &mut o.sub;
                let r = guard(|| {
                    let h = sub.fil(a);
                    if h == EMPTY_REF {
                        return Err(());
                    }
                    if kind == K_DELH {
                        sub.delete_by_index(h);
                    } else {
                        sub.set_at(h, S::P::mk(k, !b));
                    }
                    Ok(())
                });
                ncb = rt::cb_count();
                match r {
                    Ok(Ok(())) => Ok(()),
                    Ok(Err(())) => {
                        cx.violate(prop, "handle", format!("first_index_less({a}) returned the empty sentinel although key {k} is stored"));
                        Ok(())
                    }
                    Err(c) => Err(c),
                }
            }
            K_CLEAR => {
                after_model.clear();
                rt::cb_reset(inj);
                let sub = &mut o.sub;
                let r = guard(|| sub.clear());
                ncb = rt::cb_count();
                r
            }
            K_QF => {
                rt::cb_reset(inj);
                let sub = &o.sub;
                let r = guard(|| {
                    let h = sub.fil(a);
                    let h2 = sub.fil_by(a);
                    let v = if h != EMPTY_REF { Some(sub.at(h)) } else { None };
                    (h, h2, v)
                });
                ncb = rt::cb_count();
                match r {
                    Ok((h, h2, v)) => {
                        cx.evals += 1;
                        match Self::pred(&o.model, a) {
                            None => {
                                if h != EMPTY_REF || h2 != EMPTY_REF {
                                    cx.violate(prop, "handle", format!("first_index_less({a}) = {h}, _by = {h2}, but no stored key is <= {a}"));
                                }
                            }
                            Some((k, b)) => {
                                let want = self.code(k, b);
                                let ok = h != EMPTY_REF && h == h2 && v.map(|(vk, vc)| vc == want && vk.map(|x| x == k).unwrap_or(true)).unwrap_or(false);
                                if !ok {
                                    cx.violate(prop, "handle", format!("first_index_less({a}) = {h} (dereferences to {v:?}), first_index_less_by = {h2}; predecessor key is {k}"));
                                }
                            }
                        }
                        Ok(())
                    }
                    Err(c) => Err(c),
                }
            }
            K_QA | K_QB => {
                rt::cb_reset(inj);
                let sub = &o.sub;
                let after = kind == K_QA;
                let r = guard(|| {
                    let h = sub.fil(a);
                    if h == EMPTY_REF {
                        return None;
                    }
                    let n = if after { sub.after(h) } else { sub.before(h) };
                    Some(if n == EMPTY_REF { None } else { sub.at(n).0 })
                });
                ncb = rt::cb_count();
                match r {
                    Ok(got) => {
                        cx.evals += 1;
                        let want = if after { o.model.range(a + 1..).next().map(|(k, _)| *k) } else { o.model.range(..a).next_back().map(|(k, _)| *k) };
                        if got != Some(want) {
                            cx.violate(prop, if after { "index_after" } else { "index_before" }, format!("{}(handle of {a}) leads to key {got:?}, expected {want:?}", if after { "index_after" } else { "index_before" }));
                        }
                        Ok(())
                    }
                    Err(c) => Err(c),
                }
            }
            K_QG => {
                rt::cb_reset(inj);
                let sub = &o.sub;
                let r = guard(|| sub.get(a));
                ncb = rt::cb_count();
                match r {
                    Ok(got) => {
                        cx.evals += 1;
                        let exp = o.model.get(&a).map(|b| (a, self.code(a, *b)));
                        if got != exp {
                            cx.violate(prop, "get_value", format!("get_value({a}) = {got:?}, reference says {exp:?}"));
                        }
                        Ok(())
                    }
                    Err(c) => Err(c),
                }
            }
            _ => panic!("bad op"),
        };
        rt::cb_disarm();
        match res {
            Ok(()) => {
                if inj.is_some() {
                    // the armed callback index was not reached (cannot happen for i < ncb)
                    o.inj_used += 1;
                }
                o.model = after_model;
            }
            Err(Caught::Panic(m)) => {
                cx.violate(prop, "panic", format!("operation panicked: {m}"));
            }
            Err(Caught::Injected) => {
                o.inj_used += 1;
                cx.count("injected_panics_caught");
                // contents must be those before or those after the operation
                let before = before.unwrap();
                let sub = &o.sub;
                let verdict = guard(|| {
                    if self.matches(sub, &before) {
                        0
                    } else if self.matches(sub, &after_model) {
                        1
                    } else {
                        2
                    }
                });
                match verdict {
                    Ok(0) => {
                        o.model = before;
                        cx.count("post_panic_state_is_before");
                    }
                    Ok(1) => {
                        o.model = after_model;
                        cx.count("post_panic_state_is_after");
                    }
                    Ok(_) => cx.violate(prop, "torn", "after the caught callback panic the contents are neither those before nor those after the operation".into()),
                    Err(_) => cx.violate(prop, "panic-after-unwind", format!("lookup after the caught callback panic panicked: {}", rt::last_panic())),
                }
            }
        }
        match track_take_flag() {
            1 => cx.violate(prop, "double-drop", "a stored value was dropped twice (two owners of one value)".into()),
            2 => cx.violate(prop, "use-after-drop", "a value that had already been dropped was read or cloned".into()),
            _ => {}
        }
        ncb
    }

    fn note_removal(&self, sub: &S, key: u8, cx: &mut Cx) {
        if let MSnap::Tree(s) = sub.snap() {
            let a = inv::analyze(&s, |p| p.0);
            if let Some(&slot) = a.inorder.iter().find(|&&i| s.slots[i as usize].payload.0 == key) {
                cx.count(inv::removal_case(&s, slot));
            }
        }
    }

    fn canon_sub(&self, sub: &S, out: &mut Vec<u8>) {
        match sub.snap() {
            MSnap::Tree(s) => {
                let a = inv::analyze(&s, |p| p.0);
                inv::canon(self.mode, &s, &a, |p, o| {
                    o.push(p.0);
                    o.extend_from_slice(&p.1.to_le_bytes());
                }, out);
            }
            MSnap::List(v) => {
                out.push(b'V');
                for (k, c) in v {
                    out.push(k);
                    out.extend_from_slice(&c.to_le_bytes());
                }
            }
        }
    }
}

impl<S: MSub + Send> System for MSys<S> {
    type Obj = MObj<S>;
    fn name(&self) -> String {
        S::name()
    }
    fn prop(&self) -> &'static str {
        self.prop
    }
    fn fresh(&self, cx: &mut Cx) -> Option<MObj<S>> {
        rt::scrub_stack();
        rt::cb_reset(None);
        match guard(|| S::new(self.hint)) {
            Ok(sub) => Some(MObj { sub, model: BTreeMap::new(), inj_used: 0 }),
            Err(_) => {
                cx.violate(self.prop, "panic", format!("constructor panicked: {}", rt::last_panic()));
                None
            }
        }
    }
    fn enabled(&self, o: &MObj<S>, out: &mut Vec<u32>) {
        for i in 0..self.n {
            let k = 2 * i + 1;
            if !o.model.contains_key(&k) {
                out.push(op(K_INS, k));
            }
        }
        if self.f.del {
            for i in 0..self.n {
                out.push(op(K_DEL, 2 * i + 1));
            }
        }
        for p in 0..=self.probes() {
            if Self::pred(&o.model, p).is_some() {
                if self.f.delh {
                    out.push(op(K_DELH, p));
                }
                if self.f.wr && S::HAS_PAYLOAD {
                    out.push(op(K_WR, p));
                }
            }
        }
        if self.f.clear {
            out.push(op(K_CLEAR, 0));
        }
        if self.f.qops {
            out.extend(self.query_ops(o));
        }
    }
    fn step(&self, o: &mut MObj<S>, st: Step, cx: &mut Cx) -> u32 {
        self.do_step(o, st, cx)
    }
    fn check_state(&self, o: &MObj<S>, cx: &mut Cx) {
        rt::cb_reset(None);
        if guard(|| self.state_checks(o, cx)).is_err() {
            cx.violate(self.prop, "panic-in-observation", format!("an in-contract query panicked: {}", rt::last_panic()));
        }
        match track_take_flag() {
            1 => cx.violate(self.prop, "double-drop", "a stored value was dropped twice (two owners of one value)".into()),
            2 => cx.violate(self.prop, "use-after-drop", "a lookup returned a value that had already been dropped".into()),
            _ => {}
        }
    }
    fn canon(&self, o: &MObj<S>, out: &mut Vec<u8>) {
        out.push(o.model.len() as u8);
        for (k, b) in &o.model {
            out.push(*k);
            out.push(*b as u8);
        }
        out.push(o.inj_used as u8);
        self.canon_sub(&o.sub, out);
    }
    fn raw_words(&self, o: &MObj<S>, out: &mut Vec<u64>) {
        rt::raw_words_of(&o.sub, out);
    }
    fn nontrivial(&self, o: &MObj<S>) -> bool {
        o.model.len() >= 2
    }
    fn may_inject(&self, o: &MObj<S>) -> bool {
        o.inj_used < self.inj_budget
    }
    fn audit_suffixes(&self, o: &MObj<S>) -> Vec<Vec<u32>> {
        // observations are non-mutating here and run on every arrival in audit mode; the suffixes add the
        // state-changing operations whose effect could depend on hidden state: clear, then reuse
        let mut v = vec![vec![op(K_CLEAR, 0)]];
        if let Some(k) = (0..self.n).map(|i| 2 * i + 1).find(|k| !o.model.contains_key(k)) {
            v.push(vec![op(K_CLEAR, 0), op(K_INS, k)]);
        }
        v
    }
    fn deep_ops(&self, o: &MObj<S>) -> Vec<u32> {
        let mut v = vec![];
        self.enabled(o, &mut v);
        if !self.f.qops {
            v.extend(self.query_ops(o));
        }
        v
    }
    fn query_ops(&self, o: &MObj<S>) -> Vec<u32> {
        let mut v = vec![];
        for p in 0..=self.probes() {
            v.push(op(K_QF, p));
            v.push(op(K_QG, p));
        }
        if S::IS_SET {
            for (&k, _) in o.model.iter() {
                v.push(op(K_QA, k));
                v.push(op(K_QB, k));
            }
        }
        v
    }
    fn step_allowed(&self, o: &MObj<S>, op: u32) -> bool {
        let mut v = vec![];
        self.enabled(o, &mut v);
        v.contains(&op)
    }
    fn twin(&self, hist: &[Step], cx: &mut Cx) -> Option<MObj<S>> {
        if !self.f.o_twin {
            return None;
        }
        let pos = hist.iter().rposition(|s| s.op >> 8 == K_CLEAR)?;
        if pos == 0 && hist.len() == 1 {
            // a clear of a new object: compare with a new object
        }
        let mut t = self.fresh(cx)?;
        for &st in &hist[pos + 1..] {
            self.do_step(&mut t, st, cx);
        }
        Some(t)
    }
    fn observe(&self, o: &mut MObj<S>, out: &mut Vec<u64>) {
        rt::cb_reset(None);
        let sub = &o.sub;
        let r = guard(|| {
            let mut v: Vec<u64> = vec![];
            v.push(sub.is_empty() as u64);
            for q in 0..=self.probes() {
                v.push(match sub.get(q) {
                    None => u64::MAX,
                    Some((k, c)) => ((k as u64) << 32) | c as u64,
                });
                for h in [sub.fil(q), sub.fil_by(q)] {
                    if h == EMPTY_REF {
                        v.push(u64::MAX - 1);
                    } else {
                        let (k, c) = sub.at(h);
                        v.push(((k.unwrap_or(0) as u64) << 32) | c as u64);
                        if !S::IS_TREE {
                            v.push(h as u64);
                        }
                    }
                }
            }
            if let MSnap::List(l) = sub.snap() {
                v.push(l.len() as u64);
                for (k, c) in l {
                    v.push(((k as u64) << 32) | c as u64);
                }
            }
            v
        });
        match r {
            Ok(v) => out.extend(v),
            Err(_) => out.push(0xdead),
        }
    }
    fn fmt_op(&self, o: u32) -> String {
        let a = o & 0xff;
        match o >> 8 {
            K_INS => format!("Ins({a})"),
            K_DEL => format!("Del({a})"),
            K_DELH => format!("DelH({a})"),
            K_WR => format!("Wr({a})"),
            K_CLEAR => "Clear()".into(),
            K_QF => format!("QF({a})"),
            K_QG => format!("QG({a})"),
            K_QA => format!("QA({a})"),
            K_QB => format!("QB({a})"),
            _ => format!("?{o}"),
        }
    }
    fn parse_op(&self, s: &str) -> Option<u32> {
        let (name, rest) = s.split_once('(')?;
        let arg = rest.trim_end_matches(')');
        let a: u8 = if arg.is_empty() { 0 } else { arg.parse().ok()? };
        Some(match name {
            "Ins" => op(K_INS, a),
            "Del" => op(K_DEL, a),
            "DelH" => op(K_DELH, a),
            "Wr" => op(K_WR, a),
            "Clear" => op(K_CLEAR, 0),
            "QF" => op(K_QF, a),
            "QG" => op(K_QG, a),
            "QA" => op(K_QA, a),
            "QB" => op(K_QB, a),
            _ => return None,
        })
    }
    fn describe(&self, o: &MObj<S>) -> String {
        let keys: Vec<String> = o.model.iter().map(|(k, b)| format!("{k}:{}", *b as u8)).collect();
        let extra = match o.sub.snap() {
            MSnap::Tree(s) => format!("root={} slots={} free={:?} cap={}", s.root as i64 as i32, s.slots.len(), s.unused, s.unused_capacity),
            MSnap::List(v) => format!("list_len={}", v.len()),
        };
        format!("model{{{}}} {}", keys.join(","), extra)
    }
}
