//! Finite enumerations that are not fixpoint searches: complete (insert range, query range)
//! spaces of the segment tree, layout configurations, export size families, constructor probes.
//! Every case is executed on the real code; cases are enumerated, never sampled.

use crate::engine::{fingerprint, Report, Violation};
use crate::ksys::EKey;
use crate::rt::{self, guard};
use crate::ssys::{ref_bucket, ref_places, ref_scale, tiles_exactly, Coord, SV};
use crate::{die, finish, json, Args};
use i_tree::key::array::IntoArray;
use i_tree::key::exp::KeyExpCollection;
use i_tree::key::list::KeyExpList;
use i_tree::key::tree::KeyExpTree;
use i_tree::seg::exp::{SegExpCollection, SegRange};
use i_tree::seg::tree::SegExpTree;
use i_tree::ExpiredKey;
use std::collections::{BTreeMap, HashSet};
use std::sync::atomic::{AtomicUsize, Ordering};
use std::sync::Mutex;
use std::time::Instant;

struct Acc {
    prop: &'static str,
    sys: String,
    states: HashSet<u128>,
    transitions: u64,
    evals: u64,
    nontrivial: u64,
    counters: BTreeMap<String, u64>,
    viols: BTreeMap<String, (String, Vec<String>, u64)>,
    samples: Vec<Vec<String>>,
}
// Which observations belong to which property.  The sweeps drive long histories whose checkpoints can observe many
// things (answers, handles, structure, slot accounting, capacities); a check that decides property P must report only
// what P states, otherwise a change that breaks another property would raise P's alarm.  A panic / abort / hang of an
// in-contract operation is a failure of whatever was being exercised and is always reported.
thread_local! {
    static SCOPE: std::cell::Cell<(&'static str, bool)> = const { std::cell::Cell::new(("ALL", false)) };
}
fn scope_begin(prop: &'static str) {
    SCOPE.with(|s| s.set((prop, false)));
}
/// from here on the history has called clear() at least once (C12 speaks about what happens afterwards)
fn scope_after_clear() {
    SCOPE.with(|s| s.set((s.get().0, true)));
}
fn on(tag: &str) -> bool {
    let (prop, after_clear) = SCOPE.with(|s| s.get());
    relevant(prop, tag, after_clear)
}
fn relevant(prop: &str, tag: &str, after_clear: bool) -> bool {
    if prop.starts_with("ALL") || tag == "panic" || tag == "spine-setup" {
        return true;
    }
    let inner = tag.rsplit(':').next().unwrap_or(tag);
    let has = |set: &[&str]| set.contains(&inner);
    match prop {
        "C01" => has(&["first_less", "first_less_or_equal", "first_less_or_equal_by"]),
        "C06" => has(&["get_value"]),
        "C07" => has(&["export", "export-content"]),
        "C13" => has(&["get_value", "first_less", "first_less_or_equal", "first_less_or_equal_by", "export", "export-content"]),
        "C19" => has(&["export-capacity"]),
        "C02" => has(&["structure"]),
        "C11" => has(&["arena", "growth"]),
        "C08" => has(&["handle"]) || tag.starts_with("handle-delete:"),
        "C09" => has(&["index_after", "index_before"]),
        "C04" | "C05" => has(&["get_value", "is_empty"]),
        "C17" => has(&["handle-stability"]),
        "C12" => after_clear && has(&["clear", "is_empty", "get_value", "handle", "first_less", "first_less_or_equal", "first_less_or_equal_by", "query", "query-partial", "structure", "arena", "index_after", "index_before", "export", "export-content"]),
        "C03" => has(&["query", "query-partial", "chained", "sequential", "spurious", "duplicate", "missing", "bucket-edge", "whole-domain", "refused"]),
        "C14" => has(&["refused", "degenerate", "storage", "bucket", "monotone", "bucket-edge", "whole-domain"]),
        "C15" => has(&["placement", "chained-placement", "missing", "spurious", "duplicate", "chained", "sequential"]),
        "C16" => has(&["stale", "purge", "lost-copy"]),
        "C10" | "C18" | "C20" => false,
        _ => true,
    }
}

impl Acc {
    fn new(prop: &'static str, sys: &str) -> Self {
        Acc { prop, sys: sys.to_string(), states: HashSet::new(), transitions: 0, evals: 0, nontrivial: 0, counters: BTreeMap::new(), viols: BTreeMap::new(), samples: vec![] }
    }
    /// Records the violation if the observation belongs to the property being decided; returns whether it did.
    fn viol(&mut self, kind: &str, tag: &str, msg: String, case: Vec<String>) {
        self.viol_b(kind, tag, msg, case);
    }
    fn viol_b(&mut self, kind: &str, tag: &str, msg: String, case: Vec<String>) -> bool {
        if !on(tag) {
            self.count("observations_outside_this_property", 1);
            return false;
        }
        let sig = format!("{}/{}/{}", self.sys, kind, tag);
        match self.viols.get_mut(&sig) {
            Some(v) => v.2 += 1,
            None => {
                self.viols.insert(sig, (msg, case, 1));
            }
        }
        true
    }
    fn count(&mut self, k: &str, n: u64) {
        *self.counters.entry(k.to_string()).or_insert(0) += n;
    }
    fn merge(&mut self, o: Acc) {
        self.states.extend(o.states);
        self.transitions += o.transitions;
        self.evals += o.evals;
        self.nontrivial += o.nontrivial;
        for (k, v) in o.counters {
            *self.counters.entry(k).or_insert(0) += v;
        }
        for (k, v) in o.viols {
            match self.viols.get_mut(&k) {
                Some(x) => {
                    x.2 += v.2;
                    if v.1 < x.1 {
                        x.0 = v.0;
                        x.1 = v.1;
                    }
                }
                None => {
                    self.viols.insert(k, v);
                }
            }
        }
        if self.samples.len() < 3 {
            self.samples.extend(o.samples.into_iter().take(1));
        }
    }
    fn report(self, t0: Instant, exhaustive: bool, cap: &str) -> Report {
        let mut vs = vec![];
        for (sig, (msg, case, c)) in &self.viols {
            let replay = rt::write_replay(self.prop, sig, msg, case, "");
            vs.push(Violation { prop: self.prop.to_string(), sig: sig.clone(), msg: msg.clone(), hist: vec![], count: *c, replay });
        }
        let ok = vs.is_empty();
        Report {
            system: self.sys.clone(),
            states: self.states.len() as u64,
            transitions: self.transitions,
            injections: 0,
            replays_validated: 0,
            levels: vec![],
            nontrivial: self.nontrivial,
            exhaustive: exhaustive && ok,
            cap: cap.to_string(),
            violations: vs,
            counters: self.counters,
            classes: BTreeMap::new(),
            samples: self.samples.iter().map(|c| json::arr_str(c)).collect(),
            evals: self.evals,
            wall_s: t0.elapsed().as_secs_f64(),
            machinery_error: None,
        }
    }
}

fn all_ranges() -> Vec<(u32, u32)> {
    let mut v = vec![];
    for a in 0..32 {
        for b in a..32 {
            v.push((a, b));
        }
    }
    v
}

type Seg = SegExpTree<i32, u8, SV>;

fn seg32() -> Seg {
    Seg::new(SegRange { min: 0, max: 31 }).expect("domain [0,31] must build")
}
fn chunks_fp(t: &Seg) -> (u128, usize) {
    let mut buf = vec![];
    let mut copies = 0;
    for c in t.verif_chunks() {
        buf.push(c.len() as u8);
        copies += c.len();
        for (v, m) in c {
            buf.push(v.id);
            buf.push(v.exp);
            buf.extend_from_slice(&m.to_le_bytes());
        }
    }
    (fingerprint(&buf), copies)
}
fn note_state(acc: &mut Acc, t: &Seg) {
    let (fp, copies) = chunks_fp(t);
    if acc.states.insert(fp) && copies > 0 {
        acc.nontrivial += 1;
    }
}
fn places_of(t: &Seg, id: u8) -> Vec<u32> {
    t.verif_chunks().iter().enumerate().filter(|(_, c)| c.iter().any(|(v, _)| v.id == id)).map(|(i, _)| i as u32).collect()
}
/// A fully consumed query.  The way of consuming alternates deterministically with the arguments between the
/// loop over `next`, `for_each` (i.e. `fold`) and an explicit `fold`: all are "fully consumed" in the sense of
/// C03 / C16, and an implementation may override the latter two.
fn full_query(t: &mut Seg, c: u32, d: u32, tq: u8) -> Vec<SV> {
    let mut out = vec![];
    let mut it = t.iter_by_range(SegRange { min: c as i32, max: d as i32 }, tq);
    let _ = it.size_hint();
    match (c + 2 * d + tq as u32) % 4 {
        3 => {
            if let Some(v) = it.next() {
                out.push(v);
            }
            it.for_each(|v| out.push(v));
        }
        0 => {
            for v in it {
                out.push(v);
                if out.len() > 100 {
                    break;
                }
            }
        }
        1 => it.for_each(|v| out.push(v)),
        _ => {
            out = it.fold(out, |mut acc, v| {
                acc.push(v);
                acc
            })
        }
    }
    out
}

fn parallel<F: Fn(usize, &mut Acc) + Sync>(n_items: usize, threads: usize, prop: &'static str, sys: &str, f: F) -> Acc {
    let _wd = crate::engine::spawn_watchdog(30);
    let next = AtomicUsize::new(0);
    let total = Mutex::new(Acc::new(prop, sys));
    std::thread::scope(|sc| {
        for w in 0..threads {
            let next = &next;
            let total = &total;
            let f = &f;
            sc.spawn(move || {
                rt::set_worker(w);
                let mut acc = Acc::new(prop, sys);
                loop {
                    let i = next.fetch_add(1, Ordering::Relaxed);
                    if i >= n_items {
                        break;
                    }
                    scope_begin(prop);
                    // a panic of the subject inside a case (debug assertion, overflow, bounds check) is a
                    // violation with the case in flight as replay, not a crash of the harness
                    if guard(|| f(i, &mut acc)).is_err() {
                        let hist = rt::fmt_hist(&rt::my_history());
                        let kind = hist.last().map(|s| s.split('(').next().unwrap_or("").to_string()).unwrap_or_else(|| "case".into());
                        acc.viol(&kind, "panic", format!("the subject panicked: {}", rt::last_panic()), hist);
                    }
                }
                rt::hist_idle();
                total.lock().unwrap().merge(acc);
            });
        }
    });
    total.into_inner().unwrap()
}

/// step codes for the hook (so that an abort names the case in flight)
fn code(kind: u64, a: u64, b: u64, c: u64, d: u64) -> u64 {
    (kind << 56) | (a << 42) | (b << 28) | (c << 14) | d
}
fn fmt_code(v: u64) -> String {
    let (k, a, b, c, d) = (v >> 56, (v >> 42) & 0x3fff, (v >> 28) & 0x3fff, (v >> 14) & 0x3fff, v & 0x3fff);
    match k {
        1 => format!("insert([{a},{b}],exp={c})"),
        2 => format!("query([{a},{b}],t={c},take=all)"),
        3 => format!("layout(case#{a},len_lo={b},len_hi={c},x#{d})"),
        4 if c == 9 => format!("export-history(case#{b},subject={d})"),
        4 => format!("export-size(n={},order={c},subject={d})", (a << 14) | b),
        5 => format!("new(type#{a})"),
        6 => format!("bigtree-history(case#{a})"),
        7 => format!("bigk-history(case#{a})"),
        8 => format!("longrun-seg(case#{a})"),
        9 => format!("longrun-k(case#{a})"),
        _ => format!("step#{v:#x}"),
    }
}

fn register(a: &Args, sys: &str) {
    let _ = rt::RUN.set(rt::RunInfo {
        prop: a.prop().to_string(),
        sys_args: a.raw.clone(),
        sys_name: sys.to_string(),
        fmt_step: Box::new(fmt_code),
        replay_dir: a.get("replay-dir").unwrap_or("/verif/replays").to_string(),
    });
}

// ---------------------------------------------------------------------------
// pairs: every (insert range, query range) pair of the 32-bucket domain
// ---------------------------------------------------------------------------

fn sweep_pairs(a: &Args) -> ! {
    let t0 = Instant::now();
    let prop = a.prop();
    let sys = "SegExpTree<i32,u8,SV>[0,31]";
    register(a, sys);
    let ranges = all_ranges();
    let emax = a.num("emax", 2) as u8;
    let tmax = a.num("t", 2) as u8;
    let only = a.get("only").map(|s| s.to_string());
    let place_check = a.flag("o_place");
    let seq = a.flag("sequential");
    let chained = a.flag("chained");
    let rs = &ranges;
    let acc = parallel(ranges.len(), a.num("threads", 16) as usize, prop, sys, |i, acc| {
        let (ia, ib) = rs[i];
        if chained && only.is_none() {
            // chained: ONE tree instance per range A goes through every ordered pair of operations
            // (insert | query on A) then (insert | query on B), for all 528 B - separated by clear() only, so that
            // anything the instance remembers between two consecutive mask computations is exercised
            let mut t = seg32();
            let whole = SV { id: 9, exp: 0 };
            let (va, vb) = (SV { id: 1, exp: 0 }, SV { id: 2, exp: 0 });
            let sorted = |mut v: Vec<SV>| {
                v.sort_by_key(|x| x.id);
                v
            };
            for &(c, d) in rs.iter() {
                let overlap = ia <= d && c <= ib;
                for kinds in 0..4u32 {
                    let (k1_ins, k2_ins) = (kinds & 1 == 1, kinds & 2 == 2);
                    rt::hist_reset();
                    rt::hist_push(code(1, ia as u64, ib as u64, 0, 0));
                    SegExpCollection::clear(&mut t);
                    t.insert_by_range(SegRange { min: 0, max: 31 }, whole);
                    let case = || vec!["new([0,31]) ... earlier pairs, each followed by clear()".to_string(), "insert([0,31],id=9)".to_string(), if k1_ins { format!("insert([{ia},{ib}],id=1)") } else { format!("query([{ia},{ib}],t=0)") }, if k2_ins { format!("insert([{c},{d}],id=2)") } else { format!("query([{c},{d}],t=0)") }];
                    if k1_ins {
                        t.insert_by_range(SegRange { min: ia as i32, max: ib as i32 }, va);
                    } else {
                        let got = sorted(full_query(&mut t, ia, ib, 0));
                        if got != vec![whole] {
                            acc.viol("query", "chained", format!("query [{ia},{ib}] on a tree holding one whole-domain value yielded {} item(s)", got.len()), case());
                        }
                    }
                    rt::hist_push(code(2, c as u64, d as u64, 0, 0));
                    let mut want = vec![];
                    if k1_ins && overlap {
                        want.push(va);
                    }
                    if k2_ins {
                        t.insert_by_range(SegRange { min: c as i32, max: d as i32 }, vb);
                        want.push(vb);
                    }
                    want.push(whole);
                    let got = sorted(full_query(&mut t, c, d, 0));
                    acc.transitions += 5;
                    acc.evals += 1;
                    if got != want {
                        acc.viol("query", "chained", format!("query [{c},{d}] yielded ids {:?}, expected {:?}", got.iter().map(|v| v.id).collect::<Vec<_>>(), want.iter().map(|v| v.id).collect::<Vec<_>>()), case());
                    }
                    if place_check {
                        for (id, a0, b0, present) in [(1u8, ia, ib, k1_ins), (2, c, d, k2_ins), (9, 0, 31, true)] {
                            let have = places_of(&t, id);
                            if present && !tiles_exactly(&have, a0, b0) || !present && !have.is_empty() {
                                acc.viol("insert", "chained-placement", format!("value {id} over [{a0},{b0}] is stored at places {have:?}; maximal tiling {:?}", ref_places(a0, b0)), case());
                            }
                        }
                    }
                }
            }
            note_state(acc, &t);
        }
        for e in 0..=emax {
            // placement of one insert
            rt::hist_reset();
            rt::hist_push(code(1, ia as u64, ib as u64, e as u64, 0));
            let mut t = seg32();
            let v = SV { id: 1, exp: e };
            t.insert_by_range(SegRange { min: ia as i32, max: ib as i32 }, v);
            acc.transitions += 1;
            note_state(acc, &t);
            if place_check && e == 0 {
                let have = places_of(&t, 1);
                acc.evals += 1;
                let case = vec![format!("new([0,31])"), format!("insert([{ia},{ib}],exp={e})")];
                // tiling, computed from heap arithmetic only
                let tiles = tiles_exactly(&have, ia, ib);
                if !tiles {
                    acc.viol("insert", "placement", format!("insert of [{ia},{ib}] stored {} copies at places {have:?}; they do not tile the range exactly with at most 8 places (maximal tiling: {:?})", have.len(), ref_places(ia, ib)), case);
                }
                acc.count("copies_total", have.len() as u64);
                let m = acc.counters.get("max_copies").copied().unwrap_or(0);
                if have.len() as u64 > m {
                    acc.counters.insert("max_copies".into(), have.len() as u64);
                }
            }
            for tq in 0..=tmax {
                // isolated: a new tree per (insert, query) pair
                for &(c, d) in rs.iter() {
                    if let Some(o) = &only {
                        if *o != format!("{ia},{ib},{e},{tq},{c},{d}") {
                            continue;
                        }
                    }
                    rt::hist_reset();
                    rt::hist_push(code(1, ia as u64, ib as u64, e as u64, 0));
                    let mut t = seg32();
                    t.insert_by_range(SegRange { min: ia as i32, max: ib as i32 }, v);
                    rt::hist_push(code(2, c as u64, d as u64, tq as u64, 0));
                    let got = full_query(&mut t, c, d, tq);
                    acc.transitions += 2;
                    acc.evals += 1;
                    note_state(acc, &t);
                    let overlap = ia <= d && c <= ib;
                    let want: Vec<SV> = if overlap && e >= tq { vec![v] } else { vec![] };
                    if got != want {
                        let case = vec!["new([0,31])".to_string(), format!("insert([{ia},{ib}],exp={e})"), format!("query([{c},{d}],t={tq},take=all)"), format!("--only {ia},{ib},{e},{tq},{c},{d}")];
                        let tag = if got.len() > want.len() { if want.is_empty() { "spurious" } else { "duplicate" } } else { "missing" };
                        acc.viol("query", tag, format!("value stored over [{ia},{ib}] (exp {e}), query [{c},{d}] at time {tq} yielded {} item(s), expected {}", got.len(), want.len()), case);
                    }
                    if acc.samples.is_empty() && overlap && ia != c {
                        acc.samples.push(vec!["new([0,31])".to_string(), format!("insert([{ia},{ib}],exp={e})"), format!("query([{c},{d}],t={tq}) -> {} item(s)", got.len())]);
                    }
                }
            }
            if seq && only.is_none() {
                // sequential: all queries against one tree, times ascending (partially purged states)
                rt::hist_reset();
                rt::hist_push(code(1, ia as u64, ib as u64, e as u64, 0));
                let mut t = seg32();
                t.insert_by_range(SegRange { min: ia as i32, max: ib as i32 }, v);
                for tq in 0..=tmax {
                    for &(c, d) in rs.iter() {
                        rt::hist_push(code(2, c as u64, d as u64, tq as u64, 0));
                        let got = full_query(&mut t, c, d, tq);
                        acc.transitions += 1;
                        acc.evals += 1;
                        let overlap = ia <= d && c <= ib;
                        let want: Vec<SV> = if overlap && e >= tq { vec![v] } else { vec![] };
                        if got != want {
                            acc.viol("query", "sequential", format!("after earlier queries: value over [{ia},{ib}] (exp {e}), query [{c},{d}] at time {tq} yielded {} item(s), expected {}", got.len(), want.len()), vec![format!("insert([{ia},{ib}],exp={e})"), format!("... all queries in order up to query([{c},{d}],t={tq})")]);
                        }
                        // keep the in-flight history short
                        rt::hist_reset();
                        rt::hist_push(code(1, ia as u64, ib as u64, e as u64, 0));
                    }
                    note_state(acc, &t);
                }
            }
        }
    });
    finish(acc.report(t0, only.is_none(), ""), a)
}


// ---------------------------------------------------------------------------
// dpairs: every (insert range, query range) pair of an arbitrary (non power-of-two, wide-bucket) domain
// ---------------------------------------------------------------------------

fn sweep_dpairs(a: &Args) -> ! {
    let t0 = Instant::now();
    let prop = a.prop();
    let lo = a.inum("lo", -7);
    let hi = a.inum("hi", 92);
    let sys = format!("SegExpTree<i32,u8,SV>[{lo},{hi}]");
    register(a, &sys);
    let len = (hi - lo + 1) as u128;
    let s = ref_scale(len);
    let mut ranges: Vec<(i64, i64)> = vec![];
    for x in lo..=hi {
        for y in x..=hi {
            ranges.push((x, y));
        }
    }
    let only = a.get("only").map(|s| s.to_string());
    let rs = &ranges;
    let acc = parallel(ranges.len(), a.num("threads", 16) as usize, prop, &sys, |i, acc| {
        let (ia, ib) = rs[i];
        if let Some(o) = &only {
            if !o.starts_with(&format!("{ia},{ib},")) {
                return;
            }
        }
        rt::hist_reset();
        rt::hist_push(code(1, (ia - lo) as u64, (ib - lo) as u64, 0, 0));
        let mut t = match Seg::new(SegRange { min: lo as i32, max: hi as i32 }) {
            Some(t) => t,
            None => {
                acc.viol("new", "refused", format!("domain [{lo},{hi}] refused"), vec![]);
                return;
            }
        };
        let v = SV { id: 1, exp: 0 };
        t.insert_by_range(SegRange { min: ia as i32, max: ib as i32 }, v);
        acc.transitions += 1;
        note_state(acc, &t);
        let (ba, bb) = (ref_bucket(lo, s, ia), ref_bucket(lo, s, ib));
        if places_of(&t, 1).len() > 8 {
            acc.viol("insert", "placement", format!("insert of [{ia},{ib}] wrote more than 8 copies"), vec![format!("new([{lo},{hi}])"), format!("insert([{ia},{ib}],exp=0)")]);
        }
        for &(c, d) in rs.iter() {
            if let Some(o) = &only {
                if *o != format!("{ia},{ib},{c},{d}") {
                    continue;
                }
            }
            rt::hist_push(code(2, (c - lo) as u64, (d - lo) as u64, 0, 0));
            let mut n = 0;
            for _ in t.iter_by_range(SegRange { min: c as i32, max: d as i32 }, 0) {
                n += 1;
                if n > 50 {
                    break;
                }
            }
            acc.transitions += 1;
            acc.evals += 1;
            let (bc, bd) = (ref_bucket(lo, s, c), ref_bucket(lo, s, d));
            let want = (ba <= bd && bc <= bb) as usize;
            if n != want {
                let truly = ia <= d && c <= ib;
                let tag = if n > want { if want == 0 { "spurious" } else { "duplicate" } } else { "missing" };
                acc.viol("query", tag, format!("domain [{lo},{hi}] (bucket width 2^{s}): value stored over [{ia},{ib}] (buckets {ba}..{bb}), query [{c},{d}] (buckets {bc}..{bd}) at time 0 yielded {n} item(s), expected {want}; ranges truly intersect: {truly}"),
                    vec![format!("new([{lo},{hi}])"), format!("insert([{ia},{ib}],exp=0)"), format!("query([{c},{d}],t=0,take=all)"), format!("--only {ia},{ib},{c},{d}")]);
            }
            if acc.samples.is_empty() && want == 1 && ia != c && i == rs.len() / 3 {
                acc.samples.push(vec![format!("new([{lo},{hi}])"), format!("insert([{ia},{ib}],exp=0)"), format!("query([{c},{d}],t=0) -> {n} item(s)")]);
            }
            rt::hist_reset();
            rt::hist_push(code(1, (ia - lo) as u64, (ib - lo) as u64, 0, 0));
        }
    });
    finish(acc.report(t0, only.is_none(), ""), a)
}

// ---------------------------------------------------------------------------
// purge: expired copies are physically removed from every list a query scans
// ---------------------------------------------------------------------------

fn sweep_purge(a: &Args) -> ! {
    let t0 = Instant::now();
    let prop = a.prop();
    let sys = "SegExpTree<i32,u8,SV>[0,31]";
    register(a, sys);
    let ranges = all_ranges();
    let only = a.get("only").map(|s| s.to_string());
    let sub = a.flag("subranges");
    let rs = &ranges;
    let acc = parallel(ranges.len(), a.num("threads", 16) as usize, prop, sys, |i, acc| {
        let (ia, ib) = rs[i];
        for e in 0..=2u8 {
            for tq in 0..=3u8 {
                let queries: Vec<(u32, u32)> = if sub && e < tq { rs.clone() } else { vec![(0, 31)] };
                for (c, d) in queries {
                    if let Some(o) = &only {
                        if *o != format!("{ia},{ib},{e},{tq},{c},{d}") {
                            continue;
                        }
                    }
                    rt::hist_reset();
                    rt::hist_push(code(1, ia as u64, ib as u64, e as u64, 0));
                    let mut t = seg32();
                    let v = SV { id: 1, exp: e };
                    let keep = SV { id: 2, exp: 9 };
                    t.insert_by_range(SegRange { min: ia as i32, max: ib as i32 }, v);
                    t.insert_by_range(SegRange { min: ia as i32, max: ib as i32 }, keep);
                    let (before1, before2) = (places_of(&t, 1), places_of(&t, 2));
                    rt::hist_push(code(2, c as u64, d as u64, tq as u64, 0));
                    let _ = full_query(&mut t, c, d, tq);
                    acc.transitions += 3;
                    acc.evals += 1;
                    note_state(acc, &t);
                    let case = vec!["new([0,31])".to_string(), format!("insert([{ia},{ib}],exp={e})"), format!("insert([{ia},{ib}],exp=9)"), format!("query([{c},{d}],t={tq},take=all)"), format!("--only {ia},{ib},{e},{tq},{c},{d}")];
                    let ch = t.verif_chunks();
                    // lists the query scans: leaves c..=d and all their ancestors
                    let mut scanned = vec![false; 63];
                    for leaf in c..=d {
                        let mut n = 31 + leaf;
                        loop {
                            scanned[n as usize] = true;
                            if n == 0 {
                                break;
                            }
                            n = (n - 1) / 2;
                        }
                    }
                    for (ci, cl) in ch.iter().enumerate() {
                        if scanned[ci] && cl.iter().any(|(x, _)| x.exp < tq) {
                            acc.viol("query", "purge", format!("list {ci} was scanned by query [{c},{d}] at time {tq} but still holds a copy with expiration {e}"), case.clone());
                        }
                    }
                    // nothing unexpired may disappear
                    if places_of(&t, 2) != before2 || (e >= tq && places_of(&t, 1) != before1) {
                        acc.viol("query", "lost-copy", format!("query [{c},{d}] at time {tq} removed copies of an unexpired value stored over [{ia},{ib}]"), case.clone());
                    }
                    if (c, d) == (0, 31) && e < tq && !places_of(&t, 1).is_empty() {
                        acc.viol("query", "purge", format!("after a fully consumed whole-domain query at time {tq} copies of the value with expiration {e} remain at {:?}", places_of(&t, 1)), case.clone());
                    }
                    if acc.samples.is_empty() && e < tq {
                        acc.samples.push(case.clone());
                    }
                }
            }
        }
    });
    finish(acc.report(t0, only.is_none(), ""), a)
}

// ---------------------------------------------------------------------------
// cross: two segment trees over DIFFERENT domains used alternately on one thread, same raw range
// ---------------------------------------------------------------------------

/// For every ordered pair of domains (six domains with six different bucket widths / origins), every raw range
/// [a,b] inside [0,31] (valid in all of them) and every combination of (insert | query) on the first tree then
/// (insert | query) on the second tree with that same raw range: the answers of both trees and the purge of the
/// second one are checked against the bucket reference.  Anything an implementation remembers between two calls
/// without tying it to the instance (a `static` / `thread_local!` memo of the last mask, a shared scratch
/// buffer) is invisible as long as every tree of a run has the same layout; here the layouts differ.
fn sweep_cross(a: &Args) -> ! {
    let t0 = Instant::now();
    let prop = a.prop();
    let sys = "SegExpTree<i32,u8,SV> x SegExpTree<i32,u8,SV> (two domains)";
    register(a, sys);
    let domains: Vec<(i32, i32)> = vec![(0, 31), (0, 63), (0, 127), (0, 1023), (-64, 63), (0, 4095)];
    let ranges = all_ranges();
    let mut cases: Vec<(usize, usize)> = vec![];
    for i in 0..domains.len() {
        for j in 0..domains.len() {
            if i != j {
                cases.push((i, j));
            }
        }
    }
    let (cs, rs, ds) = (&cases, &ranges, &domains);
    let bucket = |d: (i32, i32), x: i32| -> u32 { ref_bucket(d.0 as i64, ref_scale((d.1 as i64 - d.0 as i64 + 1) as u128), x as i64) };
    let acc = parallel(cases.len(), a.num("threads", 16) as usize, prop, sys, |ci, acc| {
        let (i, j) = cs[ci];
        let (di, dj) = (ds[i], ds[j]);
        for &(ra, rb) in rs.iter() {
            let r = SegRange { min: ra as i32, max: rb as i32 };
            for combo in 0..4u32 {
                rt::hist_reset();
                rt::hist_push(code(7, ci as u64, ra as u64, rb as u64, combo as u64));
                let case = vec![
                    format!("Ti = SegExpTree::new([{},{}]); Tj = SegExpTree::new([{},{}])", di.0, di.1, dj.0, dj.1),
                    format!("Ti.insert([{ra},{rb}], A exp 5); Tj.insert([{ra},{rb}], B exp 5); Tj.insert(whole domain, C exp 0)"),
                    format!("{} on Ti with [{ra},{rb}] at time 1, then {} on Tj with [{ra},{rb}] at time 1", if combo & 1 == 0 { "query" } else { "insert D" }, if combo & 2 == 0 { "query" } else { "insert E" }),
                    "query [ra,rb] on Tj, whole-domain query on Tj, query [ra,rb] on Ti, all at time 1".to_string(),
                ];
                let res = guard(|| -> Result<(), (String, String)> {
                    let mut ti = Seg::new(SegRange { min: di.0, max: di.1 }).ok_or(("refused".to_string(), "domain refused".to_string()))?;
                    let mut tj = Seg::new(SegRange { min: dj.0, max: dj.1 }).ok_or(("refused".to_string(), "domain refused".to_string()))?;
                    ti.insert_by_range(r, SV { id: 1, exp: 5 });
                    tj.insert_by_range(r, SV { id: 2, exp: 5 });
                    tj.insert_by_range(SegRange { min: dj.0, max: dj.1 }, SV { id: 3, exp: 0 });
                    tj.insert_by_range(r, SV { id: 6, exp: 0 });
                    let ids = |t: &mut Seg, q: SegRange<i32>| -> Vec<u8> {
                        let mut v: Vec<u8> = t.iter_by_range(q, 1).map(|x| x.id).collect();
                        v.sort();
                        v
                    };
                    let mut want_i = vec![1u8];
                    let mut want_j = vec![2u8];
                    if combo & 1 == 0 {
                        let g = ids(&mut ti, r);
                        if g != want_i {
                            return Err(("query".into(), format!("first tree: query [{ra},{rb}] at time 1 yielded ids {g:?}, reference says {want_i:?}")));
                        }
                    } else {
                        ti.insert_by_range(r, SV { id: 4, exp: 7 });
                        want_i.push(4);
                    }
                    if combo & 2 == 0 {
                        let g = ids(&mut tj, r);
                        if g != want_j && on("query") {
                            return Err(("query".into(), format!("second tree (domain [{},{}]) right after the same raw range was used on a tree over [{},{}]: query [{ra},{rb}] at time 1 yielded ids {g:?}, reference says {want_j:?}", dj.0, dj.1, di.0, di.1)));
                        }
                        // every list this query has to scan (its cover meets the range's buckets in the second
                        // tree's own layout) must have lost its expired copies
                        let (qa, qb) = (bucket(dj, ra as i32), bucket(dj, rb as i32));
                        for (k, c) in tj.verif_chunks().iter().enumerate() {
                            let (l, rr) = crate::ssys::ref_cover(k as u32);
                            if l <= qb && qa <= rr && c.iter().any(|(v, _)| v.exp < 1) {
                                return Err(("purge".into(), format!("second tree (domain [{},{}]) right after the same raw range was used on a tree over [{},{}]: list {k} had to be scanned by the fully consumed query [{ra},{rb}] at time 1 but still holds a copy with expiration 0", dj.0, dj.1, di.0, di.1)));
                            }
                        }
                    } else {
                        tj.insert_by_range(r, SV { id: 5, exp: 7 });
                        want_j.push(5);
                        // the copies of the new value must tile the range's buckets in the second tree's own layout
                        let have: Vec<u32> = tj.verif_chunks().iter().enumerate().filter(|(_, c)| c.iter().any(|(v, _)| v.id == 5)).map(|(k, _)| k as u32).collect();
                        if !tiles_exactly(&have, bucket(dj, ra as i32), bucket(dj, rb as i32)) {
                            return Err(("placement".into(), format!("second tree (domain [{},{}]): insert of [{ra},{rb}] right after the same raw range was used on a tree over [{},{}] stored copies at places {have:?}, which do not tile buckets {}..{}", dj.0, dj.1, di.0, di.1, bucket(dj, ra as i32), bucket(dj, rb as i32))));
                        }
                    }
                    let g = ids(&mut tj, r);
                    if g != want_j {
                        return Err(("query".into(), format!("second tree: query [{ra},{rb}] at time 1 yielded ids {g:?}, reference says {want_j:?}")));
                    }
                    let g = ids(&mut tj, SegRange { min: dj.0, max: dj.1 });
                    if g != want_j {
                        return Err(("query".into(), format!("second tree: whole-domain query at time 1 yielded ids {g:?}, reference says {want_j:?}")));
                    }
                    if tj.verif_chunks().iter().any(|c| c.iter().any(|(v, _)| v.exp < 1)) {
                        return Err(("purge".into(), "second tree: after a fully consumed whole-domain query at time 1 a copy with expiration 0 is still stored".to_string()));
                    }
                    let g = ids(&mut ti, r);
                    if g != want_i {
                        return Err(("query".into(), format!("first tree: query [{ra},{rb}] at time 1 yielded ids {g:?}, reference says {want_i:?}")));
                    }
                    // a point query at the far end of the second domain sees none of them unless the buckets coincide
                    let far = SegRange { min: dj.1, max: dj.1 };
                    let g = ids(&mut tj, far);
                    let meets = bucket(dj, rb as i32) >= bucket(dj, dj.1);
                    let want: Vec<u8> = if meets { want_j.clone() } else { vec![] };
                    if g != want {
                        return Err(("query".into(), format!("second tree: point query at {} yielded ids {g:?}, reference says {want:?}", dj.1)));
                    }
                    Ok(())
                });
                acc.transitions += 9;
                acc.evals += 5;
                match res {
                    Ok(Ok(())) => {}
                    Ok(Err((tag, msg))) => {
                        if acc.viol_b("cross", &tag, msg, case.clone()) {
                            return;
                        }
                    }
                    Err(_) => {
                        if acc.viol_b("cross", "panic", format!("the subject panicked: {}", rt::last_panic()), case.clone()) {
                            return;
                        }
                    }
                }
                if acc.samples.is_empty() && ra == 3 && rb == 17 {
                    acc.samples.push(case);
                }
            }
        }
        acc.nontrivial += 1;
        acc.states.insert(fingerprint(format!("cross:{i}:{j}").as_bytes()));
    });
    let mut acc = acc;
    acc.count("domain_pairs", cases.len() as u64);
    finish(acc.report(t0, true, ""), a)
}

// ---------------------------------------------------------------------------
// layout: construction and coordinate -> bucket mapping for families of domains
// ---------------------------------------------------------------------------

fn layout_case<R: Coord>(lo: i64, len: u128, all_coords_upto: u128, acc: &mut Acc, case_no: u64)
where
    i64: From<R>,
{
    let hi128 = lo as i128 + len as i128 - 1;
    let hi = hi128 as i64;
    let case0 = vec![format!("SegExpTree::<{},u8,SV>::new([{lo},{hi}])  // {len} points", R::NAME)];
    rt::hist_reset();
    rt::hist_push(code(3, case_no, (len & 0x3fff) as u64, ((len >> 14) & 0x3fff) as u64, 0));
    let r = guard(|| SegExpTree::<R, u8, SV>::new(SegRange { min: R::from_i64(lo), max: R::from_i64(hi) }));
    acc.transitions += 1;
    acc.evals += 1;
    let mut t = match r {
        Err(_) => {
            acc.viol("new", "panic", format!("constructor panicked for {len} points at offset {lo}: {}", rt::last_panic()), case0);
            return;
        }
        Ok(None) => {
            if len > 16 {
                acc.viol("new", "refused", format!("a domain of {len} points (> 16) was refused"), case0);
            }
            acc.count("refused", 1);
            return;
        }
        Ok(Some(t)) => {
            if len <= 16 {
                acc.viol("new", "degenerate", format!("a domain of only {len} points was accepted instead of reporting failure"), case0);
                return;
            }
            t
        }
    };
    acc.count("constructed", 1);
    acc.nontrivial += 1;
    let s = ref_scale(len);
    let nb = ref_bucket(lo, s, hi) + 1;
    let nlists = t.verif_chunks().len() as u32;
    acc.states.insert(fingerprint(format!("{}:{lo}:{len}", R::NAME).as_bytes()));
    if nb > 32 || nlists < 31 + nb || nlists > 63 {
        if acc.viol_b("new", "storage", format!("{nlists} bucket lists allocated; last reachable leaf place is {} (bucket of hi = {}), every reachable place must be backed by storage", 31 + nb - 1, nb - 1), case0.clone()) {
            return;
        }
    }
    // coordinates to probe
    let w: i128 = 1i128 << s;
    let mut xs: Vec<i64> = vec![];
    if len <= all_coords_upto {
        for k in 0..len as i128 {
            xs.push((lo as i128 + k) as i64);
        }
    } else {
        for b in 0..nb as i128 {
            for dx in [-1i128, 0, 1, w - 1, w] {
                let x = lo as i128 + b * w + dx;
                if x >= lo as i128 && x <= hi128 {
                    xs.push(x as i64);
                }
            }
        }
        xs.push(lo);
        xs.push(hi);
        xs.sort();
        xs.dedup();
    }
    let mut prev_bucket = 0u32;
    let mut place_of: Vec<Option<u32>> = vec![None; 32];
    for (k, &x) in xs.iter().enumerate() {
        rt::hist_push(code(3, case_no, (len & 0x3fff) as u64, ((len >> 14) & 0x3fff) as u64, (k & 0x3fff) as u64));
        let want = ref_bucket(lo, s, x);
        let r = guard(|| {
            t.insert_by_range(SegRange { min: R::from_i64(x), max: R::from_i64(x) }, SV { id: 7, exp: 0 });
            let ch = t.verif_chunks();
            let at: Vec<u32> = ch.iter().enumerate().filter(|(_, c)| !c.is_empty()).map(|(i, _)| i as u32).collect();
            t.clear();
            at
        });
        acc.transitions += 2;
        acc.evals += 1;
        match r {
            Err(_) => {
                acc.viol("insert", "panic", format!("single-point insert at {x} panicked: {}", rt::last_panic()), vec![case0[0].clone(), format!("insert([{x},{x}])")]);
                return;
            }
            Ok(at) => {
                // a single point is stored once; which place a bucket gets is the implementation's business,
                // but it must be a function of the bucket and different buckets must get different places
                let consistent = at.len() == 1 && want < 32 && match place_of[want as usize] {
                    Some(q) => q == at[0],
                    None => !place_of.contains(&Some(at[0])),
                };
                if !consistent {
                    if acc.viol_b("insert", "bucket", format!("coordinate {x} of domain [{lo},{hi}] (bucket {want} for width 2^{s}) was stored at places {at:?}; bucket -> place so far {:?}: coordinates of one bucket must share one place and different buckets must not", place_of.iter().flatten().collect::<Vec<_>>()), vec![case0[0].clone(), format!("insert([{x},{x}])")]) {
                        return;
                    }
                }
                if want < 32 {
                    place_of[want as usize] = Some(at[0]);
                }
                if want < prev_bucket || want >= 32 {
                    if acc.viol_b("insert", "monotone", format!("bucket mapping not monotone / out of range at {x}"), vec![case0[0].clone()]) {
                        return;
                    }
                }
                prev_bucket = want;
            }
        }
    }
    // observational: a point query at y finds a point value at x iff they share a bucket; edges of every bucket
    let mut probes = 0u64;
    for b in 0..nb as i128 {
        let bs = lo as i128 + b * w;
        let be = (bs + w - 1).min(hi128);
        for x in [bs, be] {
            let r = guard(|| {
                t.insert_by_range(SegRange { min: R::from_i64(x as i64), max: R::from_i64(x as i64) }, SV { id: 9, exp: 0 });
                let mut bad = None;
                for y in [bs - 1, bs, be, be + 1] {
                    if y < lo as i128 || y > hi128 {
                        continue;
                    }
                    let n = t.iter_by_range(SegRange { min: R::from_i64(y as i64), max: R::from_i64(y as i64) }, 0).count();
                    let same = y >= bs && y <= be;
                    if n != same as usize {
                        bad = Some((y, n));
                    }
                }
                t.clear();
                bad
            });
            acc.transitions += 6;
            probes += 1;
            match r {
                Err(_) => {
                    acc.viol("query", "panic", format!("point insert/query at bucket edge {x} panicked: {}", rt::last_panic()), vec![case0[0].clone(), format!("insert([{x},{x}])")]);
                    return;
                }
                Ok(Some((y, n))) => {
                    acc.viol("query", "bucket-edge", format!("value at {x} (bucket {b}) and point query at {y}: {n} result(s)"), vec![case0[0].clone(), format!("insert([{x},{x}])"), format!("query([{y},{y}],t=0)")]);
                    return;
                }
                Ok(None) => {}
            }
        }
    }
    acc.evals += probes;
    // whole domain insert + query
    let r = guard(|| {
        t.insert_by_range(SegRange { min: R::from_i64(lo), max: R::from_i64(hi) }, SV { id: 3, exp: 0 });
        let n = t.iter_by_range(SegRange { min: R::from_i64(lo), max: R::from_i64(hi) }, 0).count();
        let n2 = t.iter_by_range(SegRange { min: R::from_i64(hi), max: R::from_i64(hi) }, 0).count();
        (n, n2)
    });
    acc.transitions += 3;
    match r {
        Ok((1, 1)) => {}
        Ok(x) => acc.viol("query", "whole-domain", format!("whole-domain value found {x:?} times by whole-domain / hi-point query"), case0.clone()),
        Err(_) => acc.viol("query", "panic", format!("whole-domain insert/query panicked: {}", rt::last_panic()), case0.clone()),
    }
    if acc.samples.len() < 2 && len > 40 {
        acc.samples.push(vec![case0[0].clone(), format!("bucket width 2^{s}, {nb} buckets, {nlists} lists, {} coordinates probed", xs.len())]);
    }
}

fn sweep_layout(a: &Args) -> ! {
    let t0 = Instant::now();
    let prop = a.prop();
    let sys = "SegExpTree::new/Layout";
    register(a, sys);
    let lmax = a.num("lmax", 2100) as u128;
    let allc = a.num("all-coords", 2100) as u128;
    // (type, lo, len)
    let mut cases: Vec<(u8, i64, u128)> = vec![];
    if let Some(o) = a.get("only") {
        let p: Vec<&str> = o.split(',').collect();
        cases.push((p[0].parse().unwrap(), p[1].parse().unwrap(), p[2].parse().unwrap()));
    } else {
        for len in 1..=lmax {
            for lo in [0i64, -1, -17, 5, -1000, i32::MIN as i64, i32::MAX as i64 - len as i64 + 1] {
                cases.push((0, lo, len));
            }
        }
        // lengths next to powers of two (and next to 3 * 2^(k-1)), and the longest lengths an i64 can express
        let mut lens: Vec<u128> = vec![];
        for k in 1..=62u32 {
            for d in [-3i128, -2, -1, 0, 1, 2, 3] {
                for base in [1i128 << k, 3i128 << (k - 1)] {
                    let len = base + d;
                    if len >= 1 && len <= i64::MAX as i128 {
                        lens.push(len as u128);
                    }
                }
            }
        }
        for d in [0u128, 1, 2, 3, 16, 17, 1 << 20, (1 << 58) - 1, 1 << 58, 1 << 61] {
            lens.push(i64::MAX as u128 - d);
        }
        // domains with more points than an i64 can count (2^63 .. 2^64): the whole type, half the type and a bit, ...
        for d in [0u128, 1, 2, 3, 17, 1 << 20, (1 << 58) - 1, 1 << 58, (1 << 58) + 1, 1 << 61, (1 << 62) - 1, 1 << 62, (1 << 62) + 1] {
            lens.push((1u128 << 63) + d);
            lens.push((1u128 << 64) - d);
        }
        lens.sort();
        lens.dedup();
        for &len in &lens {
            if len <= (1u128 << 32) {
                for lo in [i32::MIN as i64, -5, 0, i32::MAX as i64 - (len as i64 - 1)] {
                    if lo >= i32::MIN as i64 && lo as i128 + len as i128 - 1 <= i32::MAX as i128 {
                        cases.push((0, lo, len));
                    }
                }
                if len - 1 <= u32::MAX as u128 {
                    cases.push((1, 0, len));
                    if len + 7 - 1 <= u32::MAX as u128 {
                        cases.push((1, 7, len));
                    }
                    cases.push((1, (u32::MAX as u128 - (len - 1)) as i64, len));
                }
            }
            // i64: round and odd offsets, domains starting at the type minimum and ending at the type maximum
            let top = (i64::MAX as i128 - (len as i128 - 1)) as i64;
            for lo in [0i64, 1, -3, -(1i64 << 40), i64::MIN / 4, i64::MIN, i64::MIN + 1, i64::MIN / 2 - 1, 12345678901, -(1i64 << 58) + 5, top, top.saturating_sub(1), top / 2 + 1] {
                if lo as i128 + len as i128 - 1 <= i64::MAX as i128 {
                    cases.push((2, lo, len));
                }
            }
        }
        cases.sort();
        cases.dedup();
    }
    let cs = &cases;
    let acc = parallel(cases.len(), a.num("threads", 16) as usize, prop, sys, |i, acc| {
        let (ty, lo, len) = cs[i];
        match ty {
            0 => layout_case::<i32>(lo, len, allc, acc, i as u64 & 0x3fff),
            1 => layout_case::<u32>(lo, len, allc, acc, i as u64 & 0x3fff),
            _ => layout_case::<i64>(lo, len, allc, acc, i as u64 & 0x3fff),
        }
    });
    let mut acc = acc;
    acc.count("configurations", cases.len() as u64);
    finish(acc.report(t0, a.get("only").is_none(), ""), a)
}

// ---------------------------------------------------------------------------
// export sizes (C19)
// ---------------------------------------------------------------------------

#[derive(Clone, Copy, Debug)]
struct BKey {
    id: u32,
    exp: u32,
}
impl PartialEq for BKey {
    fn eq(&self, o: &Self) -> bool {
        self.id == o.id
    }
}
impl Eq for BKey {}
impl PartialOrd for BKey {
    fn partial_cmp(&self, o: &Self) -> Option<std::cmp::Ordering> {
        Some(self.id.cmp(&o.id))
    }
}
impl Ord for BKey {
    fn cmp(&self, o: &Self) -> std::cmp::Ordering {
        self.id.cmp(&o.id)
    }
}
impl ExpiredKey<u32> for BKey {
    fn expiration(&self) -> u32 {
        self.exp
    }
}

fn order(n: u32, kind: u32) -> Vec<u32> {
    match kind {
        0 => (0..n).collect(),
        1 => (0..n).rev().collect(),
        _ => {
            // inside-out: middle first, alternating outwards
            let mut v = vec![];
            let mid = n / 2;
            for d in 0..=n {
                if d == 0 {
                    if mid < n {
                        v.push(mid);
                    }
                    continue;
                }
                if mid + d < n {
                    v.push(mid + d);
                }
                if d <= mid {
                    v.push(mid - d);
                }
            }
            v
        }
    }
}

fn sweep_export_sizes(a: &Args) -> ! {
    let t0 = Instant::now();
    let prop = a.prop();
    let sys = "KeyExpTree/KeyExpList<BKey,u32,u32>";
    register(a, sys);
    rt::set_worker(0);
    let kmax = a.num("kmax", 14) as u32;
    let list_quadratic_max = a.num("list-max", 4096) as u32;
    let mut sizes: Vec<u32> = (0..=64).collect();
    for k in 7..=kmax {
        for d in [-1i64, 0, 1] {
            sizes.push(((1i64 << k) + d) as u32);
        }
    }
    if let Some(o) = a.get("only") {
        sizes = vec![o.parse().unwrap()];
    }
    sizes.sort();
    sizes.dedup();
    let mut acc = Acc::new(prop, sys);
    for &n in &sizes {
        for ord in 0..3u32 {
            let keys = order(n, ord);
            for subject in 0..2u32 {
                if subject == 1 && ord != 0 && n > list_quadratic_max {
                    continue;
                }
                rt::hist_reset();
                rt::hist_push(code(4, (n >> 14) as u64, (n & 0x3fff) as u64, ord as u64, subject as u64));
                println!("TRYING export-size n={n} order={ord} subject={subject}");
                let case = vec![format!("{} ::new(8)", if subject == 0 { "KeyExpTree" } else { "KeyExpList" }), format!("insert {n} keys in order #{ord} (0 ascending, 1 descending, 2 inside-out), expiration 10, time 0"), "into_ordered_vec(0)".to_string(), format!("--only {n}")];
                let r = guard(|| {
                    if subject == 0 {
                        let mut t: KeyExpTree<BKey, u32, u32> = KeyExpTree::new(8);
                        for &k in &keys {
                            t.insert(BKey { id: k, exp: 10 }, k, 0);
                        }
                        t.into_ordered_vec(0)
                    } else {
                        let mut t: KeyExpList<BKey, u32, u32> = KeyExpList::new(8);
                        for &k in &keys {
                            t.insert(BKey { id: k, exp: 10 }, k, 0);
                        }
                        t.into_ordered_vec(0)
                    }
                });
                acc.transitions += n as u64 + 1;
                acc.evals += 1;
                if n >= 2 {
                    acc.nontrivial += 1;
                }
                acc.states.insert(fingerprint(format!("{n}:{ord}:{subject}").as_bytes()));
                match r {
                    Err(_) => acc.viol("export", "panic", format!("export of {n} entries panicked: {}", rt::last_panic()), case),
                    Ok(v) => {
                        let bound = 8 * n as usize + 64;
                        if v.capacity() > bound {
                            acc.viol("export", "export-capacity", format!("into_ordered_vec of {n} entries (order #{ord}, subject #{subject}) returned capacity {} > 8n+64 = {bound}", v.capacity()), case.clone());
                        }
                        if v.len() != n as usize || v.windows(2).any(|w| w[0] >= w[1]) {
                            acc.viol("export", "export-content", format!("into_ordered_vec of {n} entries returned {} values / unsorted", v.len()), case);
                        }
                        if acc.samples.len() < 3 && n > 100 {
                            acc.samples.push(vec![format!("n={n} order#{ord} subject#{subject} -> len {} capacity {}", v.len(), v.capacity())]);
                        }
                    }
                }
            }
        }
    }
    acc.count("sizes", sizes.len() as u64);
    if a.get("only").is_none() {
        export_histories(&mut acc, a.num("grow", 20000) as u32);
    }
    finish(acc.report(t0, a.get("only").is_none(), ""), a)
}

/// Configurations and histories in which the arena / list buffer is much larger than the number of
/// entries stored at export time: large capacity hints, growth followed by mass expiry, growth
/// followed by clear.  n in the bound is the number of entries physically stored before the export.
fn export_histories(acc: &mut Acc, grow: u32) {
    use i_tree::key::exp::KeyExpCollection as KC;
    let tree_stored = |t: &KeyExpTree<BKey, u32, u32>| -> usize {
        let s = t.verif_snapshot();
        crate::inv::analyze(&s, |p| p.0.id).inorder.len()
    };
    // (label, hint, phase-1 inserts (expire at 10), clear?, phase-2 inserts at time 10, export time)
    let mut cases: Vec<(String, usize, u32, bool, u32, u32)> = vec![];
    for hint in [0usize, 8, 1000, 100_000] {
        for n in [0u32, 10, 100] {
            cases.push((format!("hint={hint} then {n} inserts"), hint, 0, false, n, 10));
        }
    }
    for g in [2000u32, grow] {
        cases.push((format!("{g} inserts expiring at 10, then 5 inserts at time 10"), 8, g, false, 5, 10));
        cases.push((format!("{g} inserts, clear, then 2 inserts"), 8, g, true, 2, 10));
        // refill past the old size after the clear (the free list is large now, so is the next growth step)
        cases.push((format!("{g} inserts, clear, then {} inserts", 2 * g + 10), 8, g, true, 2 * g + 10, 10));
        cases.push((format!("hint {} then {} inserts", g + 1, 2 * g + 3), g as usize + 1, 0, false, 2 * g + 3, 10));
    }
    // the same grow-then-expire histories with capacity hints that are not a power of two / a multiple of 8
    for hint in [0usize, 1, 9, 12, 100, 1001] {
        cases.push((format!("hint={hint}: 2000 inserts expiring at 10, then 5 inserts at time 10"), hint, 2000, false, 5, 10));
        cases.push((format!("hint={hint}: 700 inserts, clear, then 3 inserts"), hint, 700, true, 3, 10));
    }
    // every history twice: as is, and with one more entry that is stored but has expired when the export runs
    // (the export then takes its filtering path; its result must still be sized by what is stored)
    let mut cases2: Vec<(String, usize, u32, bool, u32, u32, u32)> = vec![];
    for (label, hint, g, clr, n2, tq) in cases {
        cases2.push((label.clone(), hint, g, clr, n2, tq, 0));
        cases2.push((format!("{label}, one more insert expiring at 11, export at 12"), hint, g, clr, n2, 12, 1));
    }
    let cases = cases2;
    for (k, (label, hint, g, clr, n2, tq, late)) in cases.iter().enumerate() {
        for subject in 0..2u32 {
            rt::hist_reset();
            rt::hist_push(code(4, 0, k as u64, 9, subject as u64));
            println!("TRYING export-history {label} subject={subject}");
            let case = vec![format!("{}::new({hint})", if subject == 0 { "KeyExpTree" } else { "KeyExpList" }), label.clone(), format!("into_ordered_vec({tq})")];
            let r = guard(|| {
                if subject == 0 {
                    let mut t: KeyExpTree<BKey, u32, u32> = KeyExpTree::new(*hint);
                    for i in 0..*g {
                        KC::insert(&mut t, BKey { id: i, exp: 10 }, i, 0);
                    }
                    if *clr {
                        KC::clear(&mut t);
                    }
                    for i in 0..*n2 {
                        KC::insert(&mut t, BKey { id: 1_000_000 + i, exp: 99 }, i, 10);
                    }
                    for i in 0..*late {
                        KC::insert(&mut t, BKey { id: 2_000_000 + i, exp: 11 }, i, 10);
                    }
                    let stored = tree_stored(&t);
                    (stored, t.into_ordered_vec(*tq))
                } else {
                    let mut t: KeyExpList<BKey, u32, u32> = KeyExpList::new(*hint);
                    for i in 0..*g {
                        KC::insert(&mut t, BKey { id: i, exp: 10 }, i, 0);
                    }
                    if *clr {
                        KC::clear(&mut t);
                    }
                    for i in 0..*n2 {
                        KC::insert(&mut t, BKey { id: 1_000_000 + i, exp: 99 }, i, 10);
                    }
                    for i in 0..*late {
                        KC::insert(&mut t, BKey { id: 2_000_000 + i, exp: 11 }, i, 10);
                    }
                    let stored = t.verif_snapshot().0.len();
                    (stored, t.into_ordered_vec(*tq))
                }
            });
            acc.transitions += (*g + *n2 + *late) as u64 + 1;
            acc.evals += 1;
            acc.states.insert(fingerprint(format!("hist:{k}:{subject}").as_bytes()));
            match r {
                Err(_) => acc.viol("export", "panic", format!("export after '{label}' panicked: {}", rt::last_panic()), case),
                Ok((stored, v)) => {
                    let bound = 8 * stored + 64;
                    if v.capacity() > bound {
                        acc.viol("export", "export-capacity", format!("after '{label}' (subject #{subject}) {stored} entries were stored but into_ordered_vec returned capacity {} > 8n+64 = {bound}", v.capacity()), case.clone());
                    }
                    if v.len() != *n2 as usize {
                        acc.viol("export", "export-content", format!("after '{label}' the export holds {} values, expected {n2}", v.len()), case);
                    }
                    if k == 3 && acc.samples.len() < 4 {
                        acc.samples.push(vec![format!("{label} subject#{subject} -> stored {stored}, len {}, capacity {}", v.len(), v.capacity())]);
                    }
                }
            }
        }
    }
    acc.count("export_histories", cases.len() as u64 * 2);
    // drain cycles: the collection empties itself through expiry again and again (one entry, a query after it
    // has expired), then a few entries and the export: whatever a drain leaves behind must not add up
    for (drains, n2) in [(200u32, 3u32), (5000, 3), (5000, 100)] {
        for subject in 0..2u32 {
            rt::hist_reset();
            rt::hist_push(code(4, 1, drains as u64, n2 as u64, subject as u64));
            let label = format!("{drains} x (insert one entry expiring at the next tick, look it up after it has expired), then {n2} inserts");
            println!("TRYING export-history {label} subject={subject}");
            let case = vec![format!("{}::new(8)", if subject == 0 { "KeyExpTree" } else { "KeyExpList" }), label.clone(), format!("into_ordered_vec({})", drains + 1)];
            let r = guard(|| {
                let tq = drains + 1;
                if subject == 0 {
                    let mut t: KeyExpTree<BKey, u32, u32> = KeyExpTree::new(8);
                    for i in 0..drains {
                        KC::insert(&mut t, BKey { id: i, exp: i + 1 }, i, i);
                        let _ = KC::get_value(&mut t, i + 1, BKey { id: i, exp: 0 });
                    }
                    for i in 0..n2 {
                        KC::insert(&mut t, BKey { id: 1_000_000 + i, exp: u32::MAX }, i, tq);
                    }
                    (tree_stored(&t), t.into_ordered_vec(tq))
                } else {
                    let mut t: KeyExpList<BKey, u32, u32> = KeyExpList::new(8);
                    for i in 0..drains {
                        KC::insert(&mut t, BKey { id: i, exp: i + 1 }, i, i);
                        let _ = KC::get_value(&mut t, i + 1, BKey { id: i, exp: 0 });
                    }
                    for i in 0..n2 {
                        KC::insert(&mut t, BKey { id: 1_000_000 + i, exp: u32::MAX }, i, tq);
                    }
                    (t.verif_snapshot().0.len(), t.into_ordered_vec(tq))
                }
            });
            acc.transitions += (2 * drains + n2) as u64 + 1;
            acc.evals += 1;
            acc.states.insert(fingerprint(format!("drain:{drains}:{n2}:{subject}").as_bytes()));
            match r {
                Err(_) => acc.viol("export", "panic", format!("export after '{label}' panicked: {}", rt::last_panic()), case),
                Ok((stored, v)) => {
                    let bound = 8 * stored + 64;
                    if v.capacity() > bound {
                        acc.viol("export", "export-capacity", format!("after '{label}' (subject #{subject}) {stored} entries were stored but into_ordered_vec returned capacity {} > 8n+64 = {bound}", v.capacity()), case.clone());
                    }
                    if v.len() != n2 as usize {
                        acc.viol("export", "export-content", format!("after '{label}' the export holds {} values, expected {n2}", v.len()), case);
                    }
                }
            }
        }
    }
    acc.count("export_drain_histories", 6);
}

// ---------------------------------------------------------------------------
// constructor probes with key / value types that have invalid bit patterns (C10)
// ---------------------------------------------------------------------------

#[derive(Clone, Copy, Debug, PartialEq, Eq, PartialOrd, Ord)]
struct NicheKey {
    id: std::num::NonZeroU8,
    exp: u8,
}
impl ExpiredKey<u8> for NicheKey {
    fn expiration(&self) -> u8 {
        self.exp
    }
}
static CELL: u8 = 5;

fn sweep_niche(a: &Args) -> ! {
    let t0 = Instant::now();
    let prop = a.prop();
    let which = a.get("type").unwrap_or("key");
    let sys = match which {
        "key" => "KeyExpTree<NicheKey,u8,u32>",
        "val" => "KeyExpTree<EKey,u8,&u8>",
        "list" => "KeyExpList<NicheKey,u8,u32>",
        _ => die("bad --type"),
    };
    register(a, sys);
    rt::set_worker(0);
    rt::hist_reset();
    let mut acc = Acc::new(prop, sys);
    let case = vec![format!("{sys}::new(8)"), "insert one key, look it up".to_string()];
    let one = std::num::NonZeroU8::new(1).unwrap();
    let r = guard(|| match which {
        "key" => {
            let mut t: KeyExpTree<NicheKey, u8, u32> = KeyExpTree::new(8);
            t.insert(NicheKey { id: one, exp: 5 }, 77, 0);
            t.get_value(0, NicheKey { id: one, exp: 5 }) == Some(77)
        }
        "val" => {
            let mut t: KeyExpTree<EKey, u8, &'static u8> = KeyExpTree::new(8);
            t.insert(EKey { id: 1, exp: 5, tag: 0 }, &CELL, 0);
            t.get_value(0, EKey { id: 1, exp: 5, tag: 0 }).map(|x| *x) == Some(5)
        }
        _ => {
            let mut t: KeyExpList<NicheKey, u8, u32> = KeyExpList::new(8);
            t.insert(NicheKey { id: one, exp: 5 }, 77, 0);
            t.get_value(0, NicheKey { id: one, exp: 5 }) == Some(77)
        }
    });
    acc.transitions += 3;
    acc.evals += 1;
    acc.nontrivial += 1;
    acc.states.insert(1);
    acc.states.insert(2);
    match r {
        Ok(true) => {}
        Ok(false) => acc.viol("new", "wrong-answer", "lookup of the single inserted key failed".into(), case.clone()),
        Err(_) => acc.viol("new", "panic", format!("panicked: {}", rt::last_panic()), case.clone()),
    }
    acc.samples.push(case);
    finish(acc.report(t0, true, ""), a)
}


// ---------------------------------------------------------------------------
// bigtree: long deterministic histories on maps / sets of a few thousand entries (u32 keys)
// ---------------------------------------------------------------------------

trait BigSub: Sized {
    const NAME: &'static str;
    fn new(hint: usize) -> Self;
    fn ins(&mut self, k: u32, v: u32);
    fn del(&mut self, k: u32);
    fn get(&self, k: u32) -> Option<u32>;
    fn fil(&self, k: u32) -> u32;
    fn at(&self, h: u32) -> u32;
    fn clr(&mut self);
    fn empty(&self) -> bool;
    fn snap(&self) -> i_tree::verif::ArenaSnap<(u32, u32)>;
    fn filby(&self, k: u32) -> u32;
    fn delh(&mut self, h: u32);
    /// neighbour steps (ordered set only): handle of the next / previous entry in key order
    fn after(&self, _h: u32) -> Option<u32> {
        None
    }
    fn before(&self, _h: u32) -> Option<u32> {
        None
    }
}
impl BigSub for i_tree::map::tree::MapTree<u32, u32> {
    const NAME: &'static str = "MapTree<u32,u32>";
    fn new(hint: usize) -> Self {
        i_tree::map::tree::MapTree::new(hint)
    }
    fn ins(&mut self, k: u32, v: u32) {
        i_tree::map::sort::MapCollection::insert(self, k, v)
    }
    fn del(&mut self, k: u32) {
        i_tree::map::sort::MapCollection::delete(self, k)
    }
    fn get(&self, k: u32) -> Option<u32> {
        i_tree::map::sort::MapCollection::get_value(self, k).copied()
    }
    fn fil(&self, k: u32) -> u32 {
        i_tree::map::sort::MapCollection::first_index_less(self, k)
    }
    fn filby(&self, k: u32) -> u32 {
        i_tree::map::sort::MapCollection::first_index_less_by(self, |x: u32| x.cmp(&k))
    }
    fn delh(&mut self, h: u32) {
        i_tree::map::sort::MapCollection::delete_by_index(self, h)
    }
    fn at(&self, h: u32) -> u32 {
        *i_tree::map::sort::MapCollection::value_by_index(self, h)
    }
    fn clr(&mut self) {
        i_tree::map::sort::MapCollection::clear(self)
    }
    fn empty(&self) -> bool {
        i_tree::map::sort::MapCollection::is_empty(self)
    }
    fn snap(&self) -> i_tree::verif::ArenaSnap<(u32, u32)> {
        self.verif_snapshot()
    }
}
/// set value: key in the high half, payload in the low half is not possible for the library's own
/// `KeyValue<u32> for u32`, so the value is the key itself and the "payload" is derived from it
impl BigSub for i_tree::set::tree::SetTree<u32, u32> {
    const NAME: &'static str = "SetTree<u32,u32>";
    fn new(hint: usize) -> Self {
        i_tree::set::tree::SetTree::new(hint)
    }
    fn ins(&mut self, k: u32, _v: u32) {
        i_tree::set::sort::SetCollection::insert(self, k)
    }
    fn del(&mut self, k: u32) {
        i_tree::set::sort::SetCollection::delete(self, &k)
    }
    fn get(&self, k: u32) -> Option<u32> {
        i_tree::set::sort::SetCollection::get_value(self, &k).map(|v| v.wrapping_mul(7) + 3)
    }
    fn fil(&self, k: u32) -> u32 {
        i_tree::set::sort::SetCollection::first_index_less(self, &k)
    }
    fn filby(&self, k: u32) -> u32 {
        i_tree::set::sort::SetCollection::first_index_less_by(self, |x: &u32| x.cmp(&k))
    }
    fn delh(&mut self, h: u32) {
        i_tree::set::sort::SetCollection::delete_by_index(self, h)
    }
    fn at(&self, h: u32) -> u32 {
        i_tree::set::sort::SetCollection::value_by_index(self, h).wrapping_mul(7) + 3
    }
    fn clr(&mut self) {
        i_tree::set::sort::SetCollection::clear(self)
    }
    fn empty(&self) -> bool {
        i_tree::set::sort::SetCollection::is_empty(self)
    }
    fn after(&self, h: u32) -> Option<u32> {
        Some(i_tree::set::sort::SetCollection::index_after(self, h))
    }
    fn before(&self, h: u32) -> Option<u32> {
        Some(i_tree::set::sort::SetCollection::index_before(self, h))
    }
    fn snap(&self) -> i_tree::verif::ArenaSnap<(u32, u32)> {
        let s = self.verif_snapshot();
        i_tree::verif::ArenaSnap {
            root: s.root,
            slots: s.slots.iter().map(|x| i_tree::verif::SlotSnap { parent: x.parent, left: x.left, right: x.right, black: x.black, payload: (x.payload, x.payload.wrapping_mul(7) + 3) }).collect(),
            unused: s.unused,
            unused_capacity: s.unused_capacity,
        }
    }
}

fn big_perm(n: u32, kind: u32) -> Vec<u32> {
    match kind {
        0 => (0..n).collect(),
        1 => (0..n).rev().collect(),
        _ => {
            let mut m = 7919 % n.max(1);
            while m == 0 || gcd(m, n) != 1 {
                m += 1;
            }
            (0..n).map(|i| ((i as u64 * m as u64 + (n / 3) as u64) % n as u64) as u32).collect()
        }
    }
}
fn gcd(a: u32, b: u32) -> u32 {
    if b == 0 { a } else { gcd(b, a % b) }
}

fn big_checkpoint<S: BigSub>(t: &S, model: &BTreeMap<u32, u32>, hint: usize, peak: usize, what: &str) -> Result<(), (String, String)> {
    // heartbeat for the watchdog: a long history is many operations, not one
    let cur = rt::my_history();
    rt::hist_reset();
    if let Some(c) = cur.first() {
        rt::hist_push(*c);
    }
    let (g_empty, g_get, g_handle, g_after, g_before) = (on("is_empty"), on("get_value"), on("handle"), on("index_after"), on("index_before"));
    if g_empty && t.empty() != model.is_empty() {
        return Err(("is_empty".into(), format!("{what}: is_empty() = {} with {} keys stored", t.empty(), model.len())));
    }
    if g_get || g_handle {
        for (k, v) in model {
            if g_get && t.get(*k) != Some(*v) {
                return Err(("get_value".into(), format!("{what}: get_value({k}) = {:?}, reference says Some({v})", t.get(*k))));
            }
            if g_handle {
                let h = t.fil(*k);
                if h == i_tree::EMPTY_REF || t.at(h) != *v {
                    return Err(("handle".into(), format!("{what}: first_index_less({k}) = {h} does not designate the entry of key {k}")));
                }
                let h2 = t.filby(*k);
                if h2 != h {
                    return Err(("handle".into(), format!("{what}: first_index_less_by(cmp with {k}) = {h2}, first_index_less({k}) = {h}")));
                }
            }
        }
        // absent keys right next to stored ones
        for (k, v) in model.iter().step_by(37) {
            if !model.contains_key(&(k + 1)) {
                if g_get && t.get(k + 1).is_some() {
                    return Err(("get_value".into(), format!("{what}: get_value({}) of an absent key returned a value", k + 1)));
                }
                if g_handle {
                    // a probe in the gap above a stored key designates that key's entry, in both forms
                    let h = t.fil(k + 1);
                    if h == i_tree::EMPTY_REF || t.at(h) != *v || t.filby(k + 1) != h {
                        return Err(("handle".into(), format!("{what}: first_index_less({}) = {h}, first_index_less_by = {}; the entry of key {k} is the one to designate", k + 1, t.filby(k + 1))));
                    }
                }
            }
        }
    }
    // neighbour steps: walking from the smallest key visits every key in order and ends with EMPTY_REF, and back
    if let (Some((&lo, _)), Some((&hi, _)), true) = (model.first_key_value(), model.last_key_value(), g_after || g_before) {
        if t.after(t.fil(lo)).is_some() {
            if g_after {
                let mut h = t.fil(lo);
                for (k, v) in model {
                    if h == i_tree::EMPTY_REF || t.at(h) != *v {
                        return Err(("index_after".into(), format!("{what}: the walk by index_after from the smallest key does not arrive at key {k}")));
                    }
                    h = t.after(h).unwrap();
                }
                if h != i_tree::EMPTY_REF {
                    return Err(("index_after".into(), format!("{what}: index_after(handle of the largest key {hi}) = {h}, not EMPTY_REF")));
                }
            }
            if g_before {
                let mut h = t.fil(hi);
                for (k, v) in model.iter().rev() {
                    if h == i_tree::EMPTY_REF || t.at(h) != *v {
                        return Err(("index_before".into(), format!("{what}: the walk by index_before from the largest key does not arrive at key {k}")));
                    }
                    h = t.before(h).unwrap();
                }
                if h != i_tree::EMPTY_REF {
                    return Err(("index_before".into(), format!("{what}: index_before(handle of the smallest key {lo}) = {h}, not EMPTY_REF")));
                }
            }
        }
    }
    if on("structure") || on("arena") || on("growth") {
        let s = t.snap();
        let a = crate::inv::analyze(&s, |p| p.0);
        if on("structure") {
            if let Some(e) = a.rb_errors.first() {
                return Err(("structure".into(), format!("{what}: {e}")));
            }
            if a.inorder.len() != model.len() {
                return Err(("structure".into(), format!("{what}: {} entries linked, {} stored", a.inorder.len(), model.len())));
            }
        }
        if on("arena") {
            if let Some(e) = a.arena_errors.first() {
                return Err(("arena".into(), format!("{what}: {e}")));
            }
            if a.inorder.len() + s.unused.len() + 1 != s.slots.len() {
                return Err(("arena".into(), format!("{what}: {} linked + {} free + sentinel != {} slots", a.inorder.len(), s.unused.len(), s.slots.len())));
            }
        }
        let bound = 8 * (peak + 1) + hint.max(8);
        if on("growth") && s.slots.len() > bound {
            return Err(("growth".into(), format!("{what}: buffer holds {} slots for a peak population of {peak} (bound {bound})", s.slots.len())));
        }
    }
    Ok(())
}

fn big_history<S: BigSub>(hint: usize, n: u32, order: u32, keep_pct: u32, acc: &mut Acc, case_no: u64) {
    let case = vec![
        format!("{}::new({hint})", S::NAME),
        format!("insert {n} keys (order #{order}: 0 ascending, 1 descending, 2 strided)"),
        format!("delete down to {keep_pct}% (at least one entry unless 0), clear, insert {} keys in another order, delete all", 2 * n),
        format!("--only {hint},{n},{order},{keep_pct}"),
    ];
    rt::hist_reset();
    rt::hist_push(code(6, case_no, 0, 0, 0));
    let mut model: BTreeMap<u32, u32> = BTreeMap::new();
    let mut peak = 0usize;
    let r = guard(|| -> Result<(), (String, String)> {
        let mut t = S::new(hint);
        let val = |k: u32| k.wrapping_mul(7) + 3;
        // handles taken at one checkpoint must still designate their entries at the next one: only insertions
        // happen in between (C17)
        let mut held: Vec<(u32, u32, u32)> = vec![];
        let hold = |t: &S, model: &BTreeMap<u32, u32>, held: &mut Vec<(u32, u32, u32)>, what: &str| -> Result<(), (String, String)> {
            if !on("handle-stability") {
                return Ok(());
            }
            for &(k, h, v) in held.iter() {
                if t.at(h) != v || t.fil(k) != h {
                    return Err(("handle-stability".into(), format!("{what}: handle {h} taken for key {k} before the last batch of insertions now reads {} (was {v}); first_index_less({k}) = {}", t.at(h), t.fil(k))));
                }
            }
            held.clear();
            for (k, v) in model.iter().step_by((model.len() / 512).max(1)) {
                let h = t.fil(*k);
                if h != i_tree::EMPTY_REF {
                    held.push((*k, h, *v));
                }
            }
            Ok(())
        };
        for (j, k) in big_perm(n, order).into_iter().enumerate() {
            t.ins(k * 2, val(k * 2));
            model.insert(k * 2, val(k * 2));
            peak = peak.max(model.len());
            if j % (n as usize / 12).max(997) == 996 {
                big_checkpoint(&t, &model, hint, peak, "while filling")?;
                hold(&t, &model, &mut held, "while filling")?;
            } else if j % 61 == 7 && n <= 70000 {
                hold(&t, &model, &mut held, "while filling")?;
            }
        }
        big_checkpoint(&t, &model, hint, peak, "after the fill")?;
        hold(&t, &model, &mut held, "after the fill")?;
        held.clear();
        let keep = if keep_pct == 0 { 0 } else { ((n as u64 * keep_pct as u64 / 100) as usize).max(1) };
        for k in big_perm(n, 2 - order.min(2)) {
            if model.len() <= keep {
                break;
            }
            t.del(k * 2);
            model.remove(&(k * 2));
        }
        big_checkpoint(&t, &model, hint, peak, "after thinning out")?;
        t.clr();
        scope_after_clear();
        model.clear();
        big_checkpoint(&t, &model, hint, peak, "after clear")?;
        for (j, k) in big_perm(2 * n, (order + 1) % 3).into_iter().enumerate() {
            t.ins(k, val(k));
            model.insert(k, val(k));
            peak = peak.max(model.len());
            if j as u32 % (n / 2).max(1) == 0 {
                big_checkpoint(&t, &model, hint, peak, "while refilling after clear")?;
                hold(&t, &model, &mut held, "while refilling after clear")?;
            } else if j % 61 == 7 && n <= 70000 {
                hold(&t, &model, &mut held, "while refilling after clear")?;
            }
        }
        big_checkpoint(&t, &model, hint, peak, "after the refill")?;
        hold(&t, &model, &mut held, "after the refill")?;
        for (j, k) in big_perm(2 * n, 2).into_iter().enumerate() {
            t.del(k);
            model.remove(&k);
            if j % (n as usize / 6).max(1999) == 1998 {
                big_checkpoint(&t, &model, hint, peak, "while draining")?;
            }
        }
        big_checkpoint(&t, &model, hint, peak, "after draining")?;
        t.clr();
        t.ins(5, val(5));
        model.insert(5, val(5));
        big_checkpoint(&t, &model, hint, peak, "after clear of an empty collection and one insert")
    });
    acc.transitions += 6 * n as u64;
    acc.evals += 12;
    acc.nontrivial += 1;
    acc.states.insert(fingerprint(format!("{}:{hint}:{n}:{order}:{keep_pct}", S::NAME).as_bytes()));
    match r {
        Ok(Ok(())) => {}
        Ok(Err((tag, msg))) => acc.viol("history", &tag, msg, case.clone()),
        Err(_) => acc.viol("history", "panic", format!("the subject panicked: {}", rt::last_panic()), case.clone()),
    }
    if acc.samples.is_empty() {
        acc.samples.push(case);
    }
}

/// bigtree "tall": one monotone fill of n keys (millions: a root-to-leaf path of 2*log2(n) - 2 links, all turning
/// the same way on the fill side), checked against a closed-form reference (no model map): every lookup, every
/// predecessor handle in both forms, the complete neighbour walk in both directions, structure and slot accounting,
/// then clear (every slot back on the free list), emptiness and reuse, then a short fill in the opposite direction.
/// Lean on purpose - a few seconds per history - so that the tallest trees are part of the quick tier.
fn big_tall_history<S: BigSub>(n: u32, desc: bool, acc: &mut Acc, case_no: u64) {
    let case = vec![
        format!("{}::new(8)", S::NAME),
        format!("insert keys 2k, k = 0..{n}, in {} order; check every key; clear; check; insert 1000 keys in the opposite order; check", if desc { "descending" } else { "ascending" }),
        format!("--only-tall {n},{}", desc as u8),
    ];
    rt::hist_reset();
    rt::hist_push(code(6, case_no, 1, 0, 0));
    let val = |k: u32| k.wrapping_mul(7) + 3;
    let beat = || {
        let cur = rt::my_history();
        rt::hist_reset();
        if let Some(c) = cur.first() {
            rt::hist_push(*c);
        }
    };
    let r = guard(|| -> Result<(), (String, String)> {
        let mut t = S::new(8);
        let check = |t: &S, n: u32, what: &str| -> Result<(), (String, String)> {
            beat();
            if on("is_empty") && t.empty() != (n == 0) {
                return Err(("is_empty".into(), format!("{what}: is_empty() = {} with {n} keys stored", t.empty())));
            }
            let (g_get, g_handle) = (on("get_value"), on("handle"));
            if g_get || g_handle {
                for k in 0..n {
                    let key = 2 * k;
                    if g_get {
                        let g = t.get(key);
                        if g != Some(val(key)) {
                            return Err(("get_value".into(), format!("{what}: get_value({key}) = {g:?}, reference says Some({})", val(key))));
                        }
                        if k % 16 == 3 && t.get(key + 1).is_some() {
                            return Err(("get_value".into(), format!("{what}: get_value({}) of an absent key returned a value", key + 1)));
                        }
                    }
                    if g_handle {
                        let h = t.fil(key);
                        if h == i_tree::EMPTY_REF || t.at(h) != val(key) {
                            return Err(("handle".into(), format!("{what}: first_index_less({key}) = {h} does not designate the entry of key {key}")));
                        }
                        if k % 4 == 1 {
                            let (h1, h2, h3) = (t.filby(key), t.fil(key + 1), t.filby(key + 1));
                            if h1 != h || h2 != h || h3 != h {
                                return Err(("handle".into(), format!("{what}: first_index_less({key}) = {h}, first_index_less_by({key}) = {h1}, first_index_less({}) = {h2}, first_index_less_by({}) = {h3}: all four must designate the entry of key {key}", key + 1, key + 1)));
                            }
                        }
                    }
                    if k & 0xfffff == 0 {
                        beat();
                    }
                }
            }
            if n > 0 && t.after(t.fil(0)).is_some() {
                if on("index_after") {
                    let mut h = t.fil(0);
                    for k in 0..n {
                        if h == i_tree::EMPTY_REF || t.at(h) != val(2 * k) {
                            return Err(("index_after".into(), format!("{what}: the walk by index_after from the smallest key does not arrive at key {}", 2 * k)));
                        }
                        h = t.after(h).unwrap();
                    }
                    if h != i_tree::EMPTY_REF {
                        return Err(("index_after".into(), format!("{what}: index_after(handle of the largest key) = {h}, not EMPTY_REF")));
                    }
                }
                beat();
                if on("index_before") {
                    let mut h = t.fil(2 * (n - 1));
                    for k in (0..n).rev() {
                        if h == i_tree::EMPTY_REF || t.at(h) != val(2 * k) {
                            return Err(("index_before".into(), format!("{what}: the walk by index_before from the largest key does not arrive at key {}", 2 * k)));
                        }
                        h = t.before(h).unwrap();
                    }
                    if h != i_tree::EMPTY_REF {
                        return Err(("index_before".into(), format!("{what}: index_before(handle of the smallest key) = {h}, not EMPTY_REF")));
                    }
                }
            }
            beat();
            if on("structure") || on("arena") || on("growth") {
                let s = t.snap();
                let a = crate::inv::analyze(&s, |p| p.0);
                if on("structure") {
                    if let Some(e) = a.rb_errors.first() {
                        return Err(("structure".into(), format!("{what}: {e}")));
                    }
                    if a.inorder.len() != n as usize {
                        return Err(("structure".into(), format!("{what}: {} entries linked, {n} stored", a.inorder.len())));
                    }
                }
                if on("arena") {
                    if let Some(e) = a.arena_errors.first() {
                        return Err(("arena".into(), format!("{what}: {e}")));
                    }
                    if a.inorder.len() + s.unused.len() + 1 != s.slots.len() {
                        return Err(("arena".into(), format!("{what}: {} linked + {} free + sentinel != {} slots", a.inorder.len(), s.unused.len(), s.slots.len())));
                    }
                }
                beat();
            }
            Ok(())
        };
        // handles taken at 1/2 and 3/4 of the fill must still designate their entries at the end (C17)
        let mut held: Vec<(u32, u32)> = vec![];
        for j in 0..n {
            let k = if desc { n - 1 - j } else { j };
            t.ins(2 * k, val(2 * k));
            if j & 0xfffff == 0 {
                beat();
            }
            if on("handle-stability") && (j == n / 2 || j == n / 4 * 3) {
                for i in (0..=j).step_by((j as usize / 4096).max(1)) {
                    let key = 2 * if desc { n - 1 - i } else { i };
                    held.push((key, t.fil(key)));
                }
            }
        }
        for &(key, h) in &held {
            if h == i_tree::EMPTY_REF || t.at(h) != val(key) || t.fil(key) != h {
                return Err(("handle-stability".into(), format!("handle {h} taken for key {key} during the fill no longer designates its entry after the remaining insertions (reads {}, first_index_less({key}) = {})", if h == i_tree::EMPTY_REF { 0 } else { t.at(h) }, t.fil(key))));
            }
        }
        check(&t, n, "after the fill")?;
        let slots_before = t.snap().slots.len();
        t.clr();
        scope_after_clear();
        check(&t, 0, "after clear")?;
        if on("clear") || on("arena") {
            let s = t.snap();
            // every slot that still exists is free (an implementation may also give memory back on clear)
            if s.unused.len() + 1 != s.slots.len() || s.slots.len() > slots_before.max(16) {
                return Err(("arena".into(), format!("after clear of {n} entries: {} of {} slots on the free list (arena had {slots_before} slots)", s.unused.len(), s.slots.len())));
            }
        }
        if on("get_value") {
            for k in (0..n).step_by(4099) {
                if t.get(2 * k).is_some() {
                    return Err(("get_value".into(), format!("after clear: get_value({}) still returns a value", 2 * k)));
                }
            }
        }
        for j in 0..1000u32 {
            let k = if desc { j } else { 999 - j };
            t.ins(2 * k, val(2 * k));
        }
        check(&t, 1000, "after clear and 1000 insertions")?;
        if on("growth") {
            let s = t.snap();
            if s.slots.len() > slots_before.max(8 * 1001 + 8) {
                return Err(("growth".into(), format!("after clear and 1000 insertions the arena has {} slots, it had {slots_before} before the clear", s.slots.len())));
            }
        }
        Ok(())
    });
    acc.transitions += n as u64 + 1001;
    acc.evals += 3 * n as u64;
    acc.nontrivial += 1;
    acc.states.insert(fingerprint(format!("tall:{}:{n}:{desc}", S::NAME).as_bytes()));
    match r {
        Ok(Ok(())) => {}
        Ok(Err((tag, msg))) => acc.viol("history", &tag, msg, case.clone()),
        Err(_) => acc.viol("history", "panic", format!("the subject panicked: {}", rt::last_panic()), case.clone()),
    }
    if acc.samples.is_empty() {
        acc.samples.push(case);
    }
}

/// bigtree "spine": a long monotone fill of widely spaced keys, then a second monotone fill in the opposite direction
/// into the gap right next to the root's key - the subtree beside the root gets a spine of 2*log2(n2) links, all turning
/// the same way.  Then the root is removed through its handle (a two-children removal whose successor / predecessor
/// sits at the bottom of that spine), 64 times over.
fn big_spine_history<S: BigSub>(n1: u32, n2: u32, mirror: bool, acc: &mut Acc, case_no: u64) {
    let case = vec![
        format!("{}::new(8)", S::NAME),
        format!("insert {n1} keys in {} order, leaving a gap of {} keys beside the key r the root will hold; insert {n2} keys {} r (not r+-1 itself) in {} order; check; 64 x (delete the root's entry through its handle); check", if mirror { "descending" } else { "ascending" }, n2 + 2, if mirror { "just below" } else { "just above" }, if mirror { "ascending" } else { "descending" }),
        format!("--only-spine {n1},{n2},{}", mirror as u8),
    ];
    rt::hist_reset();
    rt::hist_push(code(6, case_no, 1, 0, 0));
    let mut model: BTreeMap<u32, u32> = BTreeMap::new();
    let acc_prop = acc.prop;
    let r = guard(|| -> Result<(), (String, String)> {
        let mut t = S::new(8);
        let val = |k: u32| k.wrapping_mul(7) + 3;
        // the rank of the root after the first fill depends on the insertion order only: find it on a twin with
        // dense keys, then leave a gap of n2 + 1 keys right beside the root's key in the real run
        let root_key = |t: &S| {
            let s = t.snap();
            s.slots[s.root as usize].payload.0
        };
        let ir = {
            let mut twin = S::new(8);
            for j in 0..n1 {
                let i = if mirror { n1 - 1 - j } else { j };
                twin.ins(i, val(i));
            }
            root_key(&twin)
        };
        let key = |i: u32| i + 1 + if (mirror && i >= ir) || (!mirror && i > ir) { n2 + 2 } else { 0 };
        for j in 0..n1 {
            let i = if mirror { n1 - 1 - j } else { j };
            let k = key(i);
            t.ins(k, val(k));
            model.insert(k, val(k));
            if j % 8192 == 0 {
                rt::hist_reset();
                rt::hist_push(code(6, case_no, 1, 0, 0));
            }
        }
        let r0 = root_key(&t);
        if r0 != key(ir) {
            return Err(("spine-setup".into(), format!("the root after the first fill holds key {r0}, the twin said rank {ir} (key {})", key(ir))));
        }
        for j in 0..n2 {
            // r0 + 1 (r0 - 1) stays absent: a probe there runs down the whole spine without an exact hit
            let k = if mirror { r0 - 1 - n2 + j } else { r0 + 1 + n2 - j };
            t.ins(k, val(k));
            model.insert(k, val(k));
        }
        let peak = model.len();
        big_checkpoint(&t, &model, 8, peak, "after the two fills")?;
        // gaps: a probe between two stored keys designates the smaller one, in both forms
        for k in [r0 + 1, r0.saturating_sub(1), r0 + n2 + 2, r0.saturating_sub(n2 + 2), 0, u32::MAX] {
            if !on("handle") {
                break;
            }
            if let Some((pk, pv)) = model.range(..=k).next_back() {
                let h = t.fil(k);
                if h == i_tree::EMPTY_REF || t.at(h) != *pv || t.filby(k) != h {
                    return Err(("handle".into(), format!("first_index_less({k}) = {h}, first_index_less_by = {}; the entry of key {pk} is the one to designate", t.filby(k))));
                }
            }
        }
        for round in 0..64 {
            let rk = root_key(&t);
            let h = t.fil(rk);
            t.delh(h);
            model.remove(&rk);
            if round == 0 || round == 63 {
                // whatever is wrong now was caused by a removal through a handle
                SCOPE.with(|s| if s.get().0 == "C08" { s.set(("ALL", false)) });
                let r = big_checkpoint(&t, &model, 8, peak, "after removing the root through its handle");
                SCOPE.with(|s| if s.get().0 == "ALL" && acc_prop == "C08" { s.set(("C08", false)) });
                r.map_err(|(tag, msg)| (format!("handle-delete:{tag}"), msg))?;
            }
        }
        Ok(())
    });
    acc.transitions += (n1 + n2 + 64) as u64;
    acc.evals += 3;
    acc.nontrivial += 1;
    acc.states.insert(fingerprint(format!("spine:{}:{n1}:{n2}:{mirror}", S::NAME).as_bytes()));
    match r {
        Ok(Ok(())) => {}
        Ok(Err((tag, msg))) => acc.viol("history", &tag, msg, case.clone()),
        Err(_) => acc.viol("history", "panic", format!("the subject panicked: {}", rt::last_panic()), case.clone()),
    }
    if acc.samples.is_empty() {
        acc.samples.push(case);
    }
}

fn sweep_bigtree(a: &Args) -> ! {
    let t0 = Instant::now();
    let prop = a.prop();
    let set = a.get("sys").unwrap_or("maptree") == "settree";
    let sys = if set { <i_tree::set::tree::SetTree<u32, u32> as BigSub>::NAME } else { <i_tree::map::tree::MapTree<u32, u32> as BigSub>::NAME };
    register(a, sys);
    let mut cases: Vec<(usize, u32, u32, u32)> = vec![];
    if let Some(o) = a.get("only") {
        let p: Vec<u32> = o.split(',').map(|x| x.parse().unwrap()).collect();
        cases.push((p[0] as usize, p[1], p[2], p[3]));
    } else if let Some(cs) = a.get("cases") {
        for c in cs.split(';') {
            let p: Vec<u32> = c.split(',').map(|x| x.parse().unwrap()).collect();
            cases.push((p[0] as usize, p[1], p[2], p[3]));
        }
    } else {
        let sizes: Vec<u32> = a.get("sizes").unwrap_or("500,1023,1024,1025,3000").split(',').map(|x| x.parse().unwrap()).collect();
        if a.num("hints", 0) > 0 {
            // every capacity hint 0..=H: the growth arithmetic depends on nothing else
            for hint in 0..=a.num("hints", 0) as usize {
                cases.push((hint, 2 * hint as u32 + 50, 2, 50));
                cases.push((hint, hint as u32 + 3, 0, 100));
            }
        } else if a.num("few", 0) == 1 {
            // the tallest trees (monotone fills of millions of entries): four histories per size only
            for &n in &sizes {
                for order in 0..2 {
                    for keep in [0u32, 50] {
                        cases.push((8, n, order, keep));
                    }
                }
            }
        } else {
            for hint in [0usize, 1, 8, 9, 1025] {
                for &n in &sizes {
                    for order in 0..3 {
                        for keep in [0u32, 1, 10, 50, 100] {
                            cases.push((hint, n, order, keep));
                        }
                    }
                }
            }
        }
    }
    if let Some(tl) = a.get("tall").or(a.get("only-tall")) {
        // tall family: "n,n,..." each ascending and descending (or one case "n,desc" with --only-tall); --sys both = map and set
        let both = a.get("sys") == Some("both");
        let kinds: Vec<bool> = if both { vec![false, true] } else { vec![set] };
        let mut tc: Vec<(u32, bool, bool)> = vec![];
        for &is_set in &kinds {
            if a.get("only-tall").is_some() {
                let (x, y) = tl.split_once(',').unwrap();
                tc.push((x.parse().unwrap(), y == "1", is_set));
            } else {
                for part in tl.split(',') {
                    for desc in [false, true] {
                        tc.push((part.parse().unwrap(), desc, is_set));
                    }
                }
            }
        }
        let tcs = &tc;
        let acc = parallel(tc.len(), a.num("threads", 16) as usize, prop, if both { "MapTree<u32,u32> + SetTree<u32,u32>" } else { sys }, |i, acc| {
            let (n, desc, is_set) = tcs[i];
            if is_set {
                big_tall_history::<i_tree::set::tree::SetTree<u32, u32>>(n, desc, acc, i as u64);
            } else {
                big_tall_history::<i_tree::map::tree::MapTree<u32, u32>>(n, desc, acc, i as u64);
            }
        });
        let mut acc = acc;
        acc.count("histories", tc.len() as u64);
        finish(acc.report(t0, a.get("only-tall").is_none(), ""), a)
    }
    if let Some(sp) = a.get("spine") {
        // spine family: "n1:n2,n1:n2,..." each in both directions
        let mut sc: Vec<(u32, u32, bool)> = vec![];
        for part in sp.split(',') {
            let (x, y) = part.split_once(':').unwrap();
            for mirror in [false, true] {
                sc.push((x.parse().unwrap(), y.parse().unwrap(), mirror));
            }
        }
        let scs = &sc;
        let acc = parallel(sc.len(), a.num("threads", 16) as usize, prop, sys, |i, acc| {
            let (n1, n2, mirror) = scs[i];
            if set {
                big_spine_history::<i_tree::set::tree::SetTree<u32, u32>>(n1, n2, mirror, acc, i as u64);
            } else {
                big_spine_history::<i_tree::map::tree::MapTree<u32, u32>>(n1, n2, mirror, acc, i as u64);
            }
        });
        let mut acc = acc;
        acc.count("histories", sc.len() as u64);
        finish(acc.report(t0, true, ""), a)
    }
    let cs = &cases;
    let acc = parallel(cases.len(), a.num("threads", 16) as usize, prop, sys, |i, acc| {
        let (hint, n, order, keep) = cs[i];
        if set {
            big_history::<i_tree::set::tree::SetTree<u32, u32>>(hint, n, order, keep, acc, i as u64);
        } else {
            big_history::<i_tree::map::tree::MapTree<u32, u32>>(hint, n, order, keep, acc, i as u64);
        }
    });
    let mut acc = acc;
    acc.count("histories", cases.len() as u64);
    finish(acc.report(t0, a.get("only").is_none(), ""), a)
}


// ---------------------------------------------------------------------------
// bigk: long histories on expiring trees of hundreds to thousands of entries (u32 keys): waves of inserts
// through expired, never-queried entries, then queries and export
// ---------------------------------------------------------------------------

fn bigk_history(hint: usize, n: u32, order: u32, pat: u32, list: bool, acc: &mut Acc, case_no: u64) {
    use i_tree::key::exp::KeyExpCollection as KC;
    let subj = if list { "KeyExpList<BKey,u32,u32>" } else { "KeyExpTree<BKey,u32,u32>" };
    let case = vec![
        format!("{subj}::new({hint})"),
        format!("{n} keys in order #{order}, three waves at times 0,1,2 with expirations wave+1+(i*(2*{pat}+3)) mod 3, then re-insertion of expired keys at time 3, lookups of every key, export"),
        format!("--only {hint},{n},{order},{pat},{}", list as u8),
    ];
    rt::hist_reset();
    rt::hist_push(code(7, case_no, 0, 0, 0));
    let first = rt::my_history().first().copied();
    let beat = || {
        rt::hist_reset();
        if let Some(c) = first {
            rt::hist_push(c);
        }
    };
    let r = guard(|| -> Result<(), (String, String)> {
        let mut tree: Option<KeyExpTree<BKey, u32, u32>> = if list { None } else { Some(KeyExpTree::new(hint)) };
        let mut lst: Option<KeyExpList<BKey, u32, u32>> = if list { Some(KeyExpList::new(hint)) } else { None };
        let mut model: BTreeMap<u32, (u32, u32)> = BTreeMap::new(); // key -> (exp, val)
        let wave = |i: u32| (i * (1 + pat % 3) + pat / 3) % 3;
        let exp0 = |i: u32| 1 + (i * (2 * pat + 3) + order) % 3;
        let perm = big_perm(n, order);
        let structure = |tree: &Option<KeyExpTree<BKey, u32, u32>>, peak: usize, what: &str| -> Result<(), (String, String)> {
            if let Some(t) = tree {
                let sn = t.verif_snapshot();
                let a = crate::inv::analyze(&sn, |p| p.0.id);
                if let Some(e) = a.rb_errors.first() {
                    if on("structure") {
                        return Err(("structure".into(), format!("{what}: {e}")));
                    }
                }
                if let Some(e) = a.arena_errors.first() {
                    if on("arena") {
                        return Err(("arena".into(), format!("{what}: {e}")));
                    }
                }
                if a.inorder.len() + sn.unused.len() + 1 != sn.slots.len() {
                    if on("arena") {
                        return Err(("arena".into(), format!("{what}: {} linked + {} free + sentinel != {} slots", a.inorder.len(), sn.unused.len(), sn.slots.len())));
                    }
                }
                let bound = 8 * (peak + 1) + hint.max(8);
                if sn.slots.len() > bound {
                    if on("growth") {
                        return Err(("growth".into(), format!("{what}: buffer holds {} slots for a peak population of {peak} (bound {bound})", sn.slots.len())));
                    }
                }
            }
            Ok(())
        };
        let mut t = 0u32;
        for w in 0..3u32 {
            for (j, &i) in perm.iter().enumerate() {
                if wave(i) != w {
                    continue;
                }
                let k = BKey { id: i * 2 + 1, exp: w + exp0(i) };
                let v = i * 2 + 1 + 1000 * k.exp;
                if let Some(tr) = tree.as_mut() {
                    KC::insert(tr, k, v, t);
                }
                if let Some(l) = lst.as_mut() {
                    KC::insert(l, k, v, t);
                }
                model.insert(k.id, (k.exp, v));
                if j % (n as usize / 6).max(499) == 0 {
                    beat();
                    structure(&tree, n as usize, "during the insert waves")?;
                }
            }
            t += 1;
        }
        // t == 3: re-insert (without looking them up first) the keys whose entry has expired
        for &i in perm.iter() {
            let id = i * 2 + 1;
            if model[&id].0 <= t {
                let k = BKey { id, exp: 9 };
                let v = id + 9000;
                if let Some(tr) = tree.as_mut() {
                    KC::insert(tr, k, v, t);
                }
                if let Some(l) = lst.as_mut() {
                    KC::insert(l, k, v, t);
                }
                model.insert(id, (9, v));
            }
        }
        beat();
        structure(&tree, n as usize, "after the re-insertions")?;
        // every key, and the gaps, at time 3
        for id in 0..=2 * n + 1 {
            let want = model.get(&id).filter(|(e, _)| *e > t).map(|(_, v)| *v);
            let probe = BKey { id, exp: 0 };
            let got = match (tree.as_mut(), lst.as_mut()) {
                (Some(tr), _) => KC::get_value(tr, t, probe),
                (_, Some(l)) => KC::get_value(l, t, probe),
                _ => None,
            };
            if got != want {
                if on("get_value") {
                    return Err(("get_value".into(), format!("get_value(time {t}, key {id}) = {got:?}, reference says {want:?}")));
                }
            }
            let pred = model.range(..=id).rev().find(|(_, (e, _))| *e > t).map(|(_, (_, v))| *v).unwrap_or(0);
            let gotp = match (tree.as_mut(), lst.as_mut()) {
                (Some(tr), _) => KC::first_less_or_equal(tr, t, 0, probe),
                (_, Some(l)) => KC::first_less_or_equal(l, t, 0, probe),
                _ => 0,
            };
            if gotp != pred {
                if on("first_less_or_equal") {
                    return Err(("first_less_or_equal".into(), format!("first_less_or_equal(time {t}, probe {id}) = {gotp}, reference says {pred}")));
                }
            }
            if id % 4096 == 0 {
                beat();
            }
        }
        structure(&tree, n as usize, "after the lookups")?;
        let want: Vec<u32> = model.values().filter(|(e, _)| *e > 5).map(|(_, v)| *v).collect();
        let stored = tree.as_ref().map(|tr| crate::inv::analyze(&tr.verif_snapshot(), |p| p.0.id).inorder.len()).or(lst.as_ref().map(|l| l.verif_snapshot().0.len())).unwrap_or(0);
        let got = match (tree.take(), lst.take()) {
            (Some(tr), _) => tr.into_ordered_vec(5),
            (_, Some(l)) => l.into_ordered_vec(5),
            _ => vec![],
        };
        if got != want {
            if on("export") {
                return Err(("export".into(), format!("into_ordered_vec(5) returned {} values, reference says {}", got.len(), want.len())));
            }
        }
        if got.capacity() > 8 * stored + 64 {
            if on("export-capacity") {
                return Err(("export-capacity".into(), format!("into_ordered_vec returned capacity {} for {stored} stored entries", got.capacity())));
            }
        }
        Ok(())
    });
    acc.transitions += 4 * n as u64;
    acc.evals += 4 * n as u64;
    acc.nontrivial += 1;
    acc.states.insert(fingerprint(format!("k:{hint}:{n}:{order}:{pat}:{list}").as_bytes()));
    match r {
        Ok(Ok(())) => {}
        Ok(Err((tag, msg))) => acc.viol("history", &tag, msg, case.clone()),
        Err(_) => acc.viol("history", "panic", format!("the subject panicked: {}", rt::last_panic()), case.clone()),
    }
    if acc.samples.is_empty() {
        acc.samples.push(case);
    }
}

/// bigk "full arena": everything is inserted at time 0 (nothing is purged on the way) until the arena is exactly
/// full at a size >= `target`; a pattern of the entries is expired at time 10 and has never been visited; then ONE
/// insert at time 10 at a chosen position, followed by every lookup, the structure checks and the export.
fn bigk_full_history(hint: usize, target: usize, order: u32, deadpat: u32, pos: u32, list: bool, acc: &mut Acc, case_no: u64) {
    use i_tree::key::exp::KeyExpCollection as KC;
    let subj = if list { "KeyExpList<BKey,u32,u32>" } else { "KeyExpTree<BKey,u32,u32>" };
    let case = vec![
        format!("{subj}::new({hint})"),
        format!("insert keys (order #{order}) at time 0 until the arena is exactly full with >= {target} slots; expirations 5 for the keys of dead-pattern #{deadpat}, 1000 otherwise; at time 10 one insert at position #{pos}; then every lookup at time 10, structure, export"),
        format!("--only {hint},{target},{order},{deadpat},{pos},{}", list as u8),
    ];
    rt::hist_reset();
    rt::hist_push(code(7, case_no, 1, 0, 0));
    let r = guard(|| -> Result<(), (String, String)> {
        let mut tree: Option<KeyExpTree<BKey, u32, u32>> = if list { None } else { Some(KeyExpTree::new(hint)) };
        let mut lst: Option<KeyExpList<BKey, u32, u32>> = if list { Some(KeyExpList::new(hint)) } else { None };
        let mut model: BTreeMap<u32, (u32, u32)> = BTreeMap::new();
        let dead = |i: u32| match deadpat {
            0 => i % 4 == 1 || i % 4 == 2,
            1 => i % 3 == 0,
            2 => (2..=4).contains(&(i % 7)),
            3 => i % 10 != 0,
            4 => i % 16 == 5 || i % 16 == 6,
            // very sparse: a handful of expired entries in a very long collection
            _ => i % 30011 == 17 || i % 65521 == 65520,
        };
        // the list has no arena: use the same number of entries as the tree variant would hold
        let cap_n = 2 * target as u32 + 64;
        let perm = big_perm(cap_n, order);
        let mut reference_tree: KeyExpTree<BKey, u32, u32> = KeyExpTree::new(hint);
        let mut count = 0u32;
        for &i in perm.iter() {
            let k = BKey { id: 4 * i + 2, exp: if dead(i) { 5 } else { 1000 } };
            let v = k.id + 7;
            KC::insert(&mut reference_tree, k, v, 0);
            if let Some(tr) = tree.as_mut() {
                KC::insert(tr, k, v, 0);
            }
            if let Some(l) = lst.as_mut() {
                KC::insert(l, k, v, 0);
            }
            model.insert(k.id, (k.exp, v));
            count += 1;
            if count % 2048 == 0 {
                rt::hist_reset();
                rt::hist_push(code(7, case_no, 1, 0, 0));
            }
            if count as usize + 2 >= target {
                let sn = reference_tree.verif_snapshot();
                if sn.unused.is_empty() && sn.slots.len() >= target {
                    break;
                }
            }
        }
        drop(reference_tree);
        let t = 10u32;
        let keys: Vec<u32> = model.keys().copied().collect();
        let newk = match pos {
            0 => 0,
            1 => keys[keys.len() - 1] + 1,
            2 => keys[keys.len() / 2] + 1,
            3 => keys[keys.len() / 3] - 1,
            _ => keys[(keys.len() * 4) / 5] + 1,
        };
        let k = BKey { id: newk, exp: 1000 };
        if let Some(tr) = tree.as_mut() {
            KC::insert(tr, k, newk + 7, t);
        }
        if let Some(l) = lst.as_mut() {
            KC::insert(l, k, newk + 7, t);
        }
        model.insert(newk, (1000, newk + 7));
        let structure = |tree: &Option<KeyExpTree<BKey, u32, u32>>, what: &str| -> Result<(), (String, String)> {
            if let Some(tr) = tree {
                let sn = tr.verif_snapshot();
                let a = crate::inv::analyze(&sn, |p| p.0.id);
                if let Some(e) = a.rb_errors.first() {
                    if on("structure") {
                        return Err(("structure".into(), format!("{what}: {e}")));
                    }
                }
                if let Some(e) = a.arena_errors.first() {
                    if on("arena") {
                        return Err(("arena".into(), format!("{what}: {e}")));
                    }
                }
                if a.inorder.len() + sn.unused.len() + 1 != sn.slots.len() {
                    if on("arena") {
                        return Err(("arena".into(), format!("{what}: {} linked + {} free + sentinel != {} slots", a.inorder.len(), sn.unused.len(), sn.slots.len())));
                    }
                }
                let bound = 8 * (count as usize + 2) + hint.max(8);
                if sn.slots.len() > bound {
                    if on("growth") {
                        return Err(("growth".into(), format!("{what}: buffer holds {} slots for a peak population of {} (bound {bound})", sn.slots.len(), count + 1)));
                    }
                }
            }
            Ok(())
        };
        structure(&tree, "after the insert into the full arena")?;
        let maxk = *model.keys().next_back().unwrap();
        for id in 0..=maxk + 1 {
            if id % 4096 == 0 {
                rt::hist_reset();
                rt::hist_push(code(7, case_no, 1, 0, 0));
            }
            let want = model.get(&id).filter(|(e, _)| *e > t).map(|(_, v)| *v);
            let probe = BKey { id, exp: 0 };
            let got = match (tree.as_mut(), lst.as_mut()) {
                (Some(tr), _) => KC::get_value(tr, t, probe),
                (_, Some(l)) => KC::get_value(l, t, probe),
                _ => None,
            };
            if got != want {
                if on("get_value") {
                    return Err(("get_value".into(), format!("get_value(time {t}, key {id}) = {got:?}, reference says {want:?}")));
                }
            }
            let pred = model.range(..=id).rev().find(|(_, (e, _))| *e > t).map(|(_, (_, v))| *v).unwrap_or(0);
            let gotp = match (tree.as_mut(), lst.as_mut()) {
                (Some(tr), _) => KC::first_less_or_equal(tr, t, 0, probe),
                (_, Some(l)) => KC::first_less_or_equal(l, t, 0, probe),
                _ => 0,
            };
            if gotp != pred {
                if on("first_less_or_equal") {
                    return Err(("first_less_or_equal".into(), format!("first_less_or_equal(time {t}, probe {id}) = {gotp}, reference says {pred}")));
                }
            }
        }
        structure(&tree, "after the lookups")?;
        let want: Vec<u32> = model.values().filter(|(e, _)| *e > t).map(|(_, v)| *v).collect();
        let got = match (tree.take(), lst.take()) {
            (Some(tr), _) => tr.into_ordered_vec(t),
            (_, Some(l)) => l.into_ordered_vec(t),
            _ => vec![],
        };
        if got != want {
            if on("export") {
                return Err(("export".into(), format!("into_ordered_vec({t}) returned {} values, reference says {}", got.len(), want.len())));
            }
        }
        Ok(())
    });
    acc.transitions += 4 * target as u64;
    acc.evals += 4 * target as u64;
    acc.nontrivial += 1;
    acc.states.insert(fingerprint(format!("kf:{hint}:{target}:{order}:{deadpat}:{pos}:{list}").as_bytes()));
    match r {
        Ok(Ok(())) => {}
        Ok(Err((tag, msg))) => acc.viol("history", &tag, msg, case.clone()),
        Err(_) => acc.viol("history", "panic", format!("the subject panicked: {}", rt::last_panic()), case.clone()),
    }
    if acc.samples.is_empty() {
        acc.samples.push(case);
    }
}

fn sweep_bigk(a: &Args) -> ! {
    let t0 = Instant::now();
    let prop = a.prop();
    let list = a.get("sys").unwrap_or("ktree") == "klist";
    let sys = if list { "KeyExpList<BKey,u32,u32>" } else { "KeyExpTree<BKey,u32,u32>" };
    register(a, sys);
    let mut cases: Vec<(usize, u32, u32, u32)> = vec![];
    if let Some(o) = a.get("only") {
        let p: Vec<u32> = o.split(',').map(|x| x.parse().unwrap()).collect();
        cases.push((p[0] as usize, p[1], p[2], p[3]));
    } else if let Some(cs) = a.get("cases") {
        // explicit list "hint,n,order,pattern;..." (growth steps above 65536 slots and the like)
        for c in cs.split(';') {
            let p: Vec<u32> = c.split(',').map(|x| x.parse().unwrap()).collect();
            cases.push((p[0] as usize, p[1], p[2], p[3]));
        }
    } else {
        let sizes: Vec<u32> = a.get("sizes").unwrap_or("127,128,255,256,257,600,1500,4000").split(',').map(|x| x.parse().unwrap()).collect();
        for hint in 0..=a.num("hints", 0) as usize {
            if a.num("hints", 0) == 0 {
                break;
            }
            cases.push((hint, 2 * hint as u32 + 50, 2, hint as u32 % 6));
            cases.push((hint, hint as u32 + 3, hint as u32 % 2, (hint as u32 + 3) % 6));
        }
        for hint in [0usize, 8, 9, 128, 256, 1000] {
            if a.num("hints", 0) > 0 {
                break;
            }
            for &n in &sizes {
                for order in 0..3 {
                    for pat in 0..6 {
                        cases.push((hint, n, order, pat));
                    }
                }
            }
        }
    }
    if a.num("full", 0) == 1 {
        // full-arena family: (hint, target, order, deadpat, pos)
        let mut fc: Vec<(usize, usize, u32, u32, u32)> = vec![];
        if let Some(o) = a.get("only") {
            let p: Vec<u32> = o.split(',').map(|x| x.parse().unwrap()).collect();
            fc.push((p[0] as usize, p[1] as usize, p[2], p[3], p[4]));
        } else {
            let tmax = a.num("target-max", 4096) as usize;
            for hint in [8usize, 0, 9, 100] {
                for target in [16usize, 64, 128, 256, 512, 1024, 2048, 4096, 8192, 16384] {
                    if target > tmax {
                        continue;
                    }
                    for order in 0..3 {
                        for deadpat in 0..5 {
                            for pos in 0..5 {
                                fc.push((hint, target, order, deadpat, pos));
                            }
                        }
                    }
                }
            }
        }
        if a.get("only").is_none() {
            // very long collections (more than 2^16 / 2^17 entries) with only a handful of expired entries
            let hmax = a.num("huge-max", 0) as usize;
            for target in [65536usize, 131072, 262144] {
                if target > hmax {
                    continue;
                }
                for order in 0..(if a.num("all-orders", 0) == 1 { 3 } else { 1 }) {
                    for deadpat in [4u32, 5] {
                        for pos in [1u32, 2] {
                            fc.push((8, target, order, deadpat, pos));
                        }
                    }
                }
            }
        }
        let fcs = &fc;
        let acc = parallel(fc.len(), a.num("threads", 16) as usize, prop, sys, |i, acc| {
            let (hint, target, order, deadpat, pos) = fcs[i];
            bigk_full_history(hint, target, order, deadpat, pos, list, acc, i as u64);
        });
        let mut acc = acc;
        acc.count("histories", fc.len() as u64);
        finish(acc.report(t0, a.get("only").is_none(), ""), a)
    }
    let cs = &cases;
    let acc = parallel(cases.len(), a.num("threads", 16) as usize, prop, sys, |i, acc| {
        let (hint, n, order, pat) = cs[i];
        bigk_history(hint, n, order, pat, list, acc, i as u64);
    });
    let mut acc = acc;
    acc.count("histories", cases.len() as u64);
    finish(acc.report(t0, a.get("only").is_none(), ""), a)
}

// ---------------------------------------------------------------------------
// longrun: ONE instance driven through hundreds of thousands of operations (well past 2^16 / 2^17 inserts and
// queries), every answer compared with the reference.  Deterministic and finite; it covers what no short history can:
// behaviour keyed to the age of an instance (operation counters, periodic maintenance, amortised sweeps).
// ---------------------------------------------------------------------------

#[derive(Clone, Copy, Debug, PartialEq, Eq)]
struct LV {
    id: u32,
    exp: u32,
}
impl i_tree::ExpiredVal<u32> for LV {
    fn expiration(&self) -> u32 {
        self.exp
    }
}

#[allow(clippy::too_many_arguments)]
fn longrun_seg<R: Coord>(lo: i64, hi: i64, period: u32, clear_every: u32, phase: u32, nq: u32, acc: &mut Acc, case_no: u64)
where
    i64: From<R>,
{
    let case = vec![
        format!("SegExpTree::<{},u32,LV>::new([{lo},{hi}])", R::NAME),
        format!("{nq} rounds on this one instance: insert a value (expiration == time on even rounds, time+1..3 on odd ones), then one query; the clock advances every {period} rounds; clear every {clear_every} rounds (0 = never); phase {phase}"),
        format!("--only seg,{},{lo},{hi},{period},{clear_every},{phase}", R::NAME),
    ];
    rt::hist_reset();
    rt::hist_push(code(8, case_no, 0, 0, 0));
    let first = rt::my_history().first().copied();
    let beat = || {
        rt::hist_reset();
        if let Some(c) = first {
            rt::hist_push(c);
        }
    };
    let (s, ranges) = crate::ssys::alphabet(lo, hi);
    let nr = ranges.len();
    let bk = |r: (i64, i64)| (ref_bucket(lo, s, r.0), ref_bucket(lo, s, r.1));
    let r = guard(|| -> Result<(), (String, String)> {
        let Some(mut tree) = SegExpTree::<R, u32, LV>::new(SegRange { min: R::from_i64(lo), max: R::from_i64(hi) }) else {
            return if on("refused") { Err(("refused".into(), "the constructor refused the domain".into())) } else { Ok(()) };
        };
        let mut model: Vec<(u32, u32, u32, u32)> = vec![]; // id, exp, first bucket, last bucket
        for i in 0..nq {
            let t = i / period;
            let exp = if (i + phase) % 2 == 0 { t } else { t + 1 + i % 3 };
            let ri = (i as usize * 5 + phase as usize) % nr;
            let rr = ranges[ri];
            tree.insert_by_range(SegRange { min: R::from_i64(rr.0), max: R::from_i64(rr.1) }, LV { id: i, exp });
            let (b0, b1) = bk(rr);
            model.push((i, exp, b0, b1));
            if i % period == 0 {
                model.retain(|m| m.1 >= t);
            }
            let qi = (i as usize * 7 + 3 + phase as usize) % nr;
            let qr = ranges[qi];
            let (q0, q1) = bk(qr);
            let mut want: Vec<u32> = model.iter().filter(|m| m.1 >= t && m.2 <= q1 && q0 <= m.3).map(|m| m.0).collect();
            want.sort();
            let all = i % 13 != 5;
            let q = SegRange { min: R::from_i64(qr.0), max: R::from_i64(qr.1) };
            let mut got: Vec<u32> = if all { tree.iter_by_range(q, t).map(|v| v.id).collect() } else { tree.iter_by_range(q, t).take(2).map(|v| v.id).collect() };
            got.sort();
            if all {
                if got != want {
                    let missing: Vec<u32> = want.iter().filter(|x| !got.contains(x)).take(4).copied().collect();
                    let extra: Vec<u32> = got.iter().filter(|x| !want.contains(x)).take(4).copied().collect();
                    if on("query") {
                        return Err(("query".into(), format!("round {i} (query #{} of this instance): query [{},{}] at time {t} returned {} values, reference says {}; missing ids {missing:?}, unexpected ids {extra:?}", i + 1, qr.0, qr.1, got.len(), want.len())));
                    }
                }
            } else {
                let dup = got.windows(2).any(|w| w[0] == w[1]);
                if dup || got.iter().any(|x| !want.contains(x)) || got.len() != want.len().min(2) {
                    if on("query-partial") {
                        return Err(("query-partial".into(), format!("round {i}: the first two results of query [{},{}] at time {t} are {got:?}; reference set has {} values", qr.0, qr.1, want.len())));
                    }
                }
            }
            if all && qi == 0 && i % 16 < 9 {
                // after a fully consumed whole-domain query only copies of unexpired values are stored
                let stale = tree.verif_chunks().iter().flatten().filter(|(v, _)| v.exp < t).count();
                if stale > 0 {
                    if on("stale") {
                        return Err(("stale".into(), format!("round {i}: {stale} copies of values with expiration below {t} are still stored after a whole-domain query at time {t}")));
                    }
                }
            }
            if clear_every > 0 && i % clear_every == clear_every - 1 {
                SegExpCollection::clear(&mut tree);
                scope_after_clear();
                model.clear();
                if tree.verif_chunks().iter().any(|c| !c.is_empty()) {
                    if on("clear") {
                        return Err(("clear".into(), format!("round {i}: clear left stored copies behind")));
                    }
                }
            }
            if i % 2048 == 0 {
                beat();
            }
        }
        Ok(())
    });
    acc.transitions += 2 * nq as u64;
    acc.evals += nq as u64;
    acc.nontrivial += 1;
    acc.states.insert(fingerprint(format!("ls:{}:{lo}:{hi}:{period}:{clear_every}:{phase}", R::NAME).as_bytes()));
    match r {
        Ok(Ok(())) => {}
        Ok(Err((tag, msg))) => acc.viol("longrun", &tag, msg, case.clone()),
        Err(_) => acc.viol("longrun", "panic", format!("the subject panicked: {}", rt::last_panic()), case.clone()),
    }
    if acc.samples.is_empty() {
        acc.samples.push(case);
    }
}

#[allow(clippy::too_many_arguments)]
fn longrun_k(list: bool, hint: usize, nkeys: u32, period: u32, clear_every: u32, phase: u32, nq: u32, acc: &mut Acc, case_no: u64) {
    use i_tree::key::exp::KeyExpCollection as KC;
    let subj = if list { "KeyExpList<BKey,u32,u32>" } else { "KeyExpTree<BKey,u32,u32>" };
    let case = vec![
        format!("{subj}::new({hint})"),
        format!("{nq} rounds on this one instance over {nkeys} keys: (re-)insert the round's key if it is not live (expiration time+1..3), then one lookup of each kind in rotation; the clock advances every {period} rounds; clear every {clear_every} rounds (0 = never); phase {phase}"),
        format!("--only k,{},{hint},{nkeys},{period},{clear_every},{phase}", list as u8),
    ];
    rt::hist_reset();
    rt::hist_push(code(9, case_no, 0, 0, 0));
    let first = rt::my_history().first().copied();
    let beat = || {
        rt::hist_reset();
        if let Some(c) = first {
            rt::hist_push(c);
        }
    };
    let r = guard(|| -> Result<(), (String, String)> {
        let mut tree: Option<KeyExpTree<BKey, u32, u32>> = if list { None } else { Some(KeyExpTree::new(hint)) };
        let mut lst: Option<KeyExpList<BKey, u32, u32>> = if list { Some(KeyExpList::new(hint)) } else { None };
        let mut model: BTreeMap<u32, (u32, u32)> = BTreeMap::new(); // key -> (exp, val)
        let mut peak = 0usize;
        let stride = (0..).map(|x| 7 + 2 * x).find(|m| gcd(*m, nkeys) == 1).unwrap();
        for i in 0..nq {
            let t = i / period;
            let id = 2 * ((i.wrapping_mul(stride) + phase) % nkeys) + 1;
            let live = model.get(&id).map(|(e, _)| *e > t).unwrap_or(false);
            if !live {
                let k = BKey { id, exp: t + 1 + (i + phase) % 3 };
                let v = id + 1000 * (i % 1000) + 1;
                if let Some(tr) = tree.as_mut() {
                    KC::insert(tr, k, v, t);
                }
                if let Some(l) = lst.as_mut() {
                    KC::insert(l, k, v, t);
                }
                model.insert(id, (k.exp, v));
            }
            if i % period == 0 {
                model.retain(|_, (e, _)| *e > t);
            }
            peak = peak.max(model.len());
            let p = (i.wrapping_mul(5) + 1 + phase) % (2 * nkeys + 2);
            let probe = BKey { id: p, exp: 0 };
            let le = model.range(..=p).rev().find(|(_, (e, _))| *e > t).map(|(_, (_, v))| *v).unwrap_or(0);
            let lt = model.range(..p).rev().find(|(_, (e, _))| *e > t).map(|(_, (_, v))| *v).unwrap_or(0);
            let eq = model.get(&p).filter(|(e, _)| *e > t).map(|(_, v)| *v);
            let (name, got, want): (&str, Option<u32>, Option<u32>) = match (i / 3 + phase) % 4 {
                0 => ("get_value", match (tree.as_mut(), lst.as_mut()) {
                    (Some(tr), _) => KC::get_value(tr, t, probe),
                    (_, Some(l)) => KC::get_value(l, t, probe),
                    _ => None,
                }, eq),
                1 => ("first_less", Some(match (tree.as_mut(), lst.as_mut()) {
                    (Some(tr), _) => KC::first_less(tr, t, 0, probe),
                    (_, Some(l)) => KC::first_less(l, t, 0, probe),
                    _ => 0,
                }), Some(lt)),
                2 => ("first_less_or_equal", Some(match (tree.as_mut(), lst.as_mut()) {
                    (Some(tr), _) => KC::first_less_or_equal(tr, t, 0, probe),
                    (_, Some(l)) => KC::first_less_or_equal(l, t, 0, probe),
                    _ => 0,
                }), Some(le)),
                _ => ("first_less_or_equal_by", Some(match (tree.as_mut(), lst.as_mut()) {
                    (Some(tr), _) => KC::first_less_or_equal_by(tr, t, 0, |k: BKey| k.id.cmp(&p)),
                    (_, Some(l)) => KC::first_less_or_equal_by(l, t, 0, |k: BKey| k.id.cmp(&p)),
                    _ => 0,
                }), Some(le)),
            };
            if got != want {
                return Err((name.into(), format!("round {i}: {name}(time {t}, probe {p}) = {got:?}, reference says {want:?} (0 = default)")));
            }
            if i % 4099 == 0 {
                beat();
                if let Some(tr) = tree.as_ref() {
                    let sn = tr.verif_snapshot();
                    let a = crate::inv::analyze(&sn, |p| p.0.id);
                    if let Some(e) = a.rb_errors.first() {
                        if on("structure") {
                            return Err(("structure".into(), format!("round {i}: {e}")));
                        }
                    }
                    if let Some(e) = a.arena_errors.first() {
                        if on("arena") {
                            return Err(("arena".into(), format!("round {i}: {e}")));
                        }
                    }
                    if a.inorder.len() + sn.unused.len() + 1 != sn.slots.len() {
                        if on("arena") {
                            return Err(("arena".into(), format!("round {i}: {} linked + {} free + sentinel != {} slots", a.inorder.len(), sn.unused.len(), sn.slots.len())));
                        }
                    }
                    let bound = 8 * (nkeys as usize + 1) + hint.max(8);
                    if sn.slots.len() > bound {
                        if on("growth") {
                            return Err(("growth".into(), format!("round {i}: buffer holds {} slots; at most {nkeys} entries were ever stored at once (bound {bound})", sn.slots.len())));
                        }
                    }
                }
            }
            if clear_every > 0 && i % clear_every == clear_every - 1 {
                if let Some(tr) = tree.as_mut() {
                    KC::clear(tr);
                }
                if let Some(l) = lst.as_mut() {
                    KC::clear(l);
                }
                scope_after_clear();
                model.clear();
            }
        }
        // export at the end of the long life
        let t = nq / period;
        let want: Vec<u32> = model.values().filter(|(e, _)| *e > t).map(|(_, v)| *v).collect();
        let stored = tree.as_ref().map(|tr| crate::inv::analyze(&tr.verif_snapshot(), |p| p.0.id).inorder.len()).or(lst.as_ref().map(|l| l.verif_snapshot().0.len())).unwrap_or(0);
        let got = match (tree.take(), lst.take()) {
            (Some(tr), _) => tr.into_ordered_vec(t),
            (_, Some(l)) => l.into_ordered_vec(t),
            _ => vec![],
        };
        if got != want {
            if on("export") {
                return Err(("export".into(), format!("into_ordered_vec({t}) after {nq} rounds returned {} values, reference says {}", got.len(), want.len())));
            }
        }
        if got.capacity() > 8 * stored + 64 {
            if on("export-capacity") {
                return Err(("export-capacity".into(), format!("into_ordered_vec returned capacity {} for {stored} stored entries", got.capacity())));
            }
        }
        Ok(())
    });
    acc.transitions += 2 * nq as u64;
    acc.evals += nq as u64;
    acc.nontrivial += 1;
    acc.states.insert(fingerprint(format!("lk:{list}:{hint}:{nkeys}:{period}:{clear_every}:{phase}").as_bytes()));
    match r {
        Ok(Ok(())) => {}
        Ok(Err((tag, msg))) => acc.viol("longrun", &tag, msg, case.clone()),
        Err(_) => acc.viol("longrun", "panic", format!("the subject panicked: {}", rt::last_panic()), case.clone()),
    }
    if acc.samples.is_empty() {
        acc.samples.push(case);
    }
}

fn sweep_longrun(a: &Args) -> ! {
    let t0 = Instant::now();
    let prop = a.prop();
    let which = a.get("sys").unwrap_or("seg").to_string();
    let sys = match which.as_str() {
        "seg" => "SegExpTree<_,u32,LV>",
        "klist" => "KeyExpList<BKey,u32,u32>",
        _ => "KeyExpTree<BKey,u32,u32>",
    };
    register(a, sys);
    let nq = a.num("rounds", 140000) as u32;
    // seg: (type, lo, hi, period, clear_every, phase)   k: (hint, nkeys, period, clear_every, phase)
    let mut seg_cases: Vec<(u8, i64, i64, u32, u32, u32)> = vec![];
    let mut k_cases: Vec<(usize, u32, u32, u32, u32)> = vec![];
    if let Some(o) = a.get("only") {
        let p: Vec<&str> = o.split(',').collect();
        if p[0] == "seg" {
            seg_cases.push(((p[1] == "i64") as u8, p[2].parse().unwrap(), p[3].parse().unwrap(), p[4].parse().unwrap(), p[5].parse().unwrap(), p[6].parse().unwrap()));
        } else {
            k_cases.push((p[2].parse().unwrap(), p[3].parse().unwrap(), p[4].parse().unwrap(), p[5].parse().unwrap(), p[6].parse().unwrap()));
        }
    } else if which == "seg" {
        for (ty, lo, hi) in [(0u8, 0i64, 31i64), (0, -7, 92), (0, 0, 128), (1, -(1i64 << 40), (1i64 << 40) + 5)] {
            for (period, clear_every) in [(64u32, 0u32), (200, 0), (64, 30011), (200, 50021)] {
                for phase in 0..3 {
                    seg_cases.push((ty, lo, hi, period, clear_every, phase));
                }
            }
        }
    } else {
        for (hint, nkeys) in [(8usize, 48u32), (0, 31), (9, 200), (256, 255)] {
            for (period, clear_every) in [(40u32, 0u32), (700, 0), (40, 30011), (300, 50021)] {
                for phase in 0..3 {
                    k_cases.push((hint, nkeys, period, clear_every, phase));
                }
            }
        }
    }
    let list = which == "klist";
    let n = seg_cases.len() + k_cases.len();
    let (sc, kc) = (&seg_cases, &k_cases);
    let acc = parallel(n, a.num("threads", 16) as usize, prop, sys, |i, acc| {
        if i < sc.len() {
            let (ty, lo, hi, period, ce, ph) = sc[i];
            if ty == 0 {
                longrun_seg::<i32>(lo, hi, period, ce, ph, nq, acc, i as u64);
            } else {
                longrun_seg::<i64>(lo, hi, period, ce, ph, nq, acc, i as u64);
            }
        } else {
            let (hint, nkeys, period, ce, ph) = kc[i - sc.len()];
            longrun_k(list, hint, nkeys, period, ce, ph, nq, acc, i as u64);
        }
    });
    let mut acc = acc;
    acc.count("histories", n as u64);
    acc.count("rounds_per_history", nq as u64);
    finish(acc.report(t0, a.get("only").is_none(), ""), a)
}

pub fn dispatch(a: &Args) -> ! {
    match a.get("kind").unwrap_or("") {
        "pairs" => sweep_pairs(a),
        "dpairs" => sweep_dpairs(a),
        "purge" => sweep_purge(a),
        "cross" => sweep_cross(a),
        "layout" => sweep_layout(a),
        "export-sizes" => sweep_export_sizes(a),
        "niche" => sweep_niche(a),
        "bigtree" => sweep_bigtree(a),
        "bigk" => sweep_bigk(a),
        "longrun" => sweep_longrun(a),
        _ => die("unknown --kind"),
    }
}
