//! Explorer K: expiring-key tree and its sorted-list twin.

use crate::engine::{self, Cx, Step, System, NO_INJ};
use crate::inv::{self, Mode};
use crate::rt::{self, callback, guard, log_key, Caught, LoggedKey};
use crate::Args;
use i_tree::key::array::IntoArray;
use i_tree::key::exp::KeyExpCollection;
use i_tree::key::list::KeyExpList;
use i_tree::key::tree::KeyExpTree;
use i_tree::verif::{ArenaSnap, SlotSnap};
use i_tree::ExpiredKey;
use std::cmp::Ordering;
use std::marker::PhantomData;

pub const PROBE_TAG: u8 = 255;

#[derive(Clone, Copy, Debug)]
pub struct EKey {
    pub id: u8,
    pub exp: u8,
    pub tag: u8,
}
impl EKey {
    fn lk(&self) -> LoggedKey {
        LoggedKey { id: self.id, exp: self.exp, tag: self.tag }
    }
}
impl PartialEq for EKey {
    fn eq(&self, o: &Self) -> bool {
        callback();
        log_key(self.lk());
        log_key(o.lk());
        self.id == o.id
    }
}
impl Eq for EKey {}
impl PartialOrd for EKey {
    fn partial_cmp(&self, o: &Self) -> Option<Ordering> {
        callback();
        log_key(self.lk());
        log_key(o.lk());
        Some(self.id.cmp(&o.id))
    }
}
impl Ord for EKey {
    fn cmp(&self, o: &Self) -> Ordering {
        callback();
        log_key(self.lk());
        log_key(o.lk());
        self.id.cmp(&o.id)
    }
}
impl ExpiredKey<u8> for EKey {
    fn expiration(&self) -> u8 {
        callback();
        self.exp
    }
}

pub type KT = KeyExpTree<EKey, u8, u32>;
pub type KL = KeyExpList<EKey, u8, u32>;

pub enum KSnap {
    Tree(ArenaSnap<(u8, u8, u8, u32)>),
    List(Vec<(u8, u8, u8, u32)>, u8),
}

pub trait KSub: Sized + Send {
    const IS_TREE: bool;
    fn name() -> String;
    fn new(cap: usize) -> Self;
    fn is_empty(&self) -> bool;
    fn insert(&mut self, k: EKey, v: u32, t: u8);
    fn get(&mut self, t: u8, k: EKey) -> Option<u32>;
    fn fl(&mut self, t: u8, d: u32, k: EKey) -> u32;
    fn fle(&mut self, t: u8, d: u32, k: EKey) -> u32;
    fn fleby(&mut self, t: u8, d: u32, p: u8) -> u32;
    fn clear(&mut self);
    fn export(self, t: u8) -> Vec<u32>;
    fn snap(&self) -> KSnap;
}

fn by(p: u8) -> impl Fn(EKey) -> Ordering {
    move |k: EKey| {
        callback();
        log_key(k.lk());
        k.id.cmp(&p)
    }
}

impl KSub for KT {
    const IS_TREE: bool = true;
    fn name() -> String {
        "KeyExpTree<EKey,u8,u32>".into()
    }
    fn new(cap: usize) -> Self {
        KeyExpTree::new(cap)
    }
    fn is_empty(&self) -> bool {
        KeyExpCollection::is_empty(self)
    }
    fn insert(&mut self, k: EKey, v: u32, t: u8) {
        KeyExpCollection::insert(self, k, v, t)
    }
    fn get(&mut self, t: u8, k: EKey) -> Option<u32> {
        KeyExpCollection::get_value(self, t, k)
    }
    fn fl(&mut self, t: u8, d: u32, k: EKey) -> u32 {
        KeyExpCollection::first_less(self, t, d, k)
    }
    fn fle(&mut self, t: u8, d: u32, k: EKey) -> u32 {
        KeyExpCollection::first_less_or_equal(self, t, d, k)
    }
    fn fleby(&mut self, t: u8, d: u32, p: u8) -> u32 {
        KeyExpCollection::first_less_or_equal_by(self, t, d, by(p))
    }
    fn clear(&mut self) {
        KeyExpCollection::clear(self)
    }
    fn export(self, t: u8) -> Vec<u32> {
        self.into_ordered_vec(t)
    }
    fn snap(&self) -> KSnap {
        let s = self.verif_snapshot();
        KSnap::Tree(ArenaSnap {
            root: s.root,
            slots: s.slots.iter().map(|x| SlotSnap { parent: x.parent, left: x.left, right: x.right, black: x.black, payload: (x.payload.0.id, x.payload.0.exp, x.payload.0.tag, x.payload.1) }).collect(),
            unused: s.unused,
            unused_capacity: s.unused_capacity,
        })
    }
}

/// A plain 40-byte value (bigger than any "small value" threshold): the expiring tree / list instantiated with it
/// take whatever code path an implementation selects by `size_of::<V>()`.  Converted to and from the harness's
/// `u32` value codes at the boundary; a value whose five words are no longer consistent reads as a code no
/// reference answer can have.
#[derive(Clone, Copy, Debug, PartialEq)]
pub struct WV(pub [u64; 5]);
impl WV {
    fn of(v: u32) -> Self {
        let x = v as u64;
        WV([x, x.wrapping_mul(0x9e37_79b9_7f4a_7c15), !x, x ^ 0x5a5a_5a5a, 7])
    }
    fn code(self) -> u32 {
        if self == WV::of(self.0[0] as u32) && self.0[0] <= u32::MAX as u64 { self.0[0] as u32 } else { 0xdead_beef }
    }
}
pub type KTW = KeyExpTree<EKey, u8, WV>;
pub type KLW = KeyExpList<EKey, u8, WV>;
macro_rules! wide_ksub {
    ($t:ty, $tree:expr, $name:expr) => {
        impl KSub for $t {
            const IS_TREE: bool = $tree;
            fn name() -> String {
                $name.into()
            }
            fn new(cap: usize) -> Self {
                <$t>::new(cap)
            }
            fn is_empty(&self) -> bool {
                KeyExpCollection::is_empty(self)
            }
            fn insert(&mut self, k: EKey, v: u32, t: u8) {
                KeyExpCollection::insert(self, k, WV::of(v), t)
            }
            fn get(&mut self, t: u8, k: EKey) -> Option<u32> {
                KeyExpCollection::get_value(self, t, k).map(|w| w.code())
            }
            fn fl(&mut self, t: u8, d: u32, k: EKey) -> u32 {
                KeyExpCollection::first_less(self, t, WV::of(d), k).code()
            }
            fn fle(&mut self, t: u8, d: u32, k: EKey) -> u32 {
                KeyExpCollection::first_less_or_equal(self, t, WV::of(d), k).code()
            }
            fn fleby(&mut self, t: u8, d: u32, p: u8) -> u32 {
                KeyExpCollection::first_less_or_equal_by(self, t, WV::of(d), by(p)).code()
            }
            fn clear(&mut self) {
                KeyExpCollection::clear(self)
            }
            fn export(self, t: u8) -> Vec<u32> {
                self.into_ordered_vec(t).into_iter().map(|w| w.code()).collect()
            }
            fn snap(&self) -> KSnap {
                wide_snap(self)
            }
        }
    };
}
trait WideSnap {
    fn wsnap(&self) -> KSnap;
}
impl WideSnap for KTW {
    fn wsnap(&self) -> KSnap {
        let s = self.verif_snapshot();
        KSnap::Tree(ArenaSnap {
            root: s.root,
            slots: s.slots.iter().map(|x| SlotSnap { parent: x.parent, left: x.left, right: x.right, black: x.black, payload: (x.payload.0.id, x.payload.0.exp, x.payload.0.tag, x.payload.1.code()) }).collect(),
            unused: s.unused,
            unused_capacity: s.unused_capacity,
        })
    }
}
impl WideSnap for KLW {
    fn wsnap(&self) -> KSnap {
        let (v, m) = self.verif_snapshot();
        KSnap::List(v.iter().map(|(k, val)| (k.id, k.exp, k.tag, val.code())).collect(), m)
    }
}
fn wide_snap<T: WideSnap>(t: &T) -> KSnap {
    t.wsnap()
}
wide_ksub!(KTW, true, "KeyExpTree<EKey,u8,WV(40 bytes)>");
wide_ksub!(KLW, false, "KeyExpList<EKey,u8,WV(40 bytes)>");

impl KSub for KL {
    const IS_TREE: bool = false;
    fn name() -> String {
        "KeyExpList<EKey,u8,u32>".into()
    }
    fn new(cap: usize) -> Self {
        KeyExpList::new(cap)
    }
    fn is_empty(&self) -> bool {
        KeyExpCollection::is_empty(self)
    }
    fn insert(&mut self, k: EKey, v: u32, t: u8) {
        KeyExpCollection::insert(self, k, v, t)
    }
    fn get(&mut self, t: u8, k: EKey) -> Option<u32> {
        KeyExpCollection::get_value(self, t, k)
    }
    fn fl(&mut self, t: u8, d: u32, k: EKey) -> u32 {
        KeyExpCollection::first_less(self, t, d, k)
    }
    fn fle(&mut self, t: u8, d: u32, k: EKey) -> u32 {
        KeyExpCollection::first_less_or_equal(self, t, d, k)
    }
    fn fleby(&mut self, t: u8, d: u32, p: u8) -> u32 {
        KeyExpCollection::first_less_or_equal_by(self, t, d, by(p))
    }
    fn clear(&mut self) {
        KeyExpCollection::clear(self)
    }
    fn export(self, t: u8) -> Vec<u32> {
        self.into_ordered_vec(t)
    }
    fn snap(&self) -> KSnap {
        let (v, m) = self.verif_snapshot();
        KSnap::List(v.iter().map(|(k, val)| (k.id, k.exp, k.tag, *val)).collect(), m)
    }
}

#[derive(Clone, Default, Debug)]
pub struct KFlags {
    pub fl: bool,
    pub fle: bool,
    pub fleby: bool,
    pub get: bool,
    pub clear: bool,
    pub restart: bool,
    pub o_pred: bool,
    pub o_get: bool,
    pub o_export: bool,
    pub o_cap: bool,
    pub o_log: bool,
    pub o_rb: bool,
    pub o_arena: bool,
    pub o_twin: bool,
    pub histogram: bool,
}

pub struct KSys<S: KSub> {
    pub n: u8,
    pub tmax: u8,
    /// time base: every time and expiration handed to the subject is offset by this (to reach the maximum of the time type)
    pub tb: u8,
    pub hint: usize,
    pub mode: Mode,
    pub f: KFlags,
    pub prop: &'static str,
    pub inj_budget: u32,
    pub _p: PhantomData<fn() -> S>,
}

pub struct KObj<S: KSub> {
    pub sub: Option<S>,
    /// live entries (exp > t), sorted by id
    pub model: Vec<(u8, u8)>,
    pub t: u8,
    pub inj_used: u32,
    pub ins_count: [u8; 256],
}

const K_INS: u32 = 1;
const K_FL: u32 = 2;
const K_FLE: u32 = 3;
const K_FLEBY: u32 = 4;
const K_GET: u32 = 5;
const K_TICK: u32 = 6;
const K_CLEAR: u32 = 7;
const K_RESTART: u32 = 8;
/// terminal observation: consume the object with into_ordered_vec(a); never enabled, used by `arrival` and replays
const K_EXPORT: u32 = 9;

fn op(kind: u32, a: u8, b: u8) -> u32 {
    (kind << 16) | ((a as u32) << 8) | b as u32
}
pub fn val_of(id: u8, exp: u8) -> u32 {
    0x10000 | ((id as u32) << 8) | exp as u32
}

pub fn make<S: KSub>(a: &Args) -> KSys<S> {
    let f = KFlags {
        fl: a.flag("fl"),
        fle: a.flag("fle"),
        fleby: a.flag("fleby"),
        get: a.flag("get"),
        clear: a.flag("clear"),
        restart: a.flag("restart"),
        o_pred: a.flag("o_pred"),
        o_get: a.flag("o_get"),
        o_export: a.flag("o_export"),
        o_cap: a.flag("o_cap"),
        o_log: a.flag("o_log"),
        o_rb: a.flag("o_rb"),
        o_arena: a.flag("o_arena"),
        o_twin: a.flag("o_twin"),
        histogram: a.flag("histogram"),
    };
    KSys {
        n: a.num("n", 3) as u8,
        tmax: a.num("t", 2) as u8,
        tb: a.num("tbase", 0) as u8,
        hint: a.num("hint", 8) as usize,
        mode: Mode::parse(a.get("mode").unwrap_or("live")).unwrap_or_else(|| crate::die("bad --mode")),
        f,
        prop: a.prop(),
        inj_budget: a.num("inject", 0) as u32,
        _p: PhantomData,
    }
}

impl<S: KSub> KSys<S> {
    fn probes(&self) -> u8 {
        2 * self.n
    }
    /// largest relative expiration / export time: T+1, capped so that the absolute value fits the time type
    fn emax(&self) -> u8 {
        (self.tmax + 1).min(255 - self.tb)
    }
    fn buffer_bound(&self) -> usize {
        8 * (self.n as usize + 1) + self.hint.max(8)
    }
    fn expect_le(model: &[(u8, u8)], p: u8, strict: bool) -> u32 {
        model.iter().rev().find(|(id, _)| if strict { *id < p } else { *id <= p }).map(|(id, e)| val_of(*id, *e)).unwrap_or(0)
    }
    fn check_log(&self, log: &[LoggedKey], own: Option<EKey>, t: u8, what: &str, cx: &mut Cx) {
        for k in log {
            if k.tag == PROBE_TAG {
                continue;
            }
            if let Some(o) = own {
                if o.id == k.id && o.exp == k.exp && o.tag == k.tag {
                    continue;
                }
            }
            if k.exp > t {
                continue;
            }
            cx.violate(self.prop, "expired-key-compared", format!("{what} at time {t} handed the stored key (id {}, expiration {}) to the caller's comparison although it has expired", k.id, k.exp));
            return;
        }
        cx.add("comparisons_logged", log.len() as u64);
    }

    fn canon_sub(&self, sub: &S, out: &mut Vec<u8>) {
        match sub.snap() {
            KSnap::Tree(s) => {
                let a = inv::analyze(&s, |p| p.0);
                inv::canon(self.mode, &s, &a, |p, o| {
                    o.push(p.0);
                    o.push(p.1);
                    o.extend_from_slice(&p.3.to_le_bytes());
                }, out);
            }
            KSnap::List(v, m) => {
                out.push(b'V');
                out.push(m);
                for (id, e, _tag, val) in v {
                    out.push(id);
                    out.push(e);
                    out.extend_from_slice(&val.to_le_bytes());
                }
            }
        }
    }

    fn physically_linked(sub: &S, id: u8, exp: u8, tag: u8) -> bool {
        match sub.snap() {
            KSnap::Tree(s) => {
                let a = inv::analyze(&s, |p| p.0);
                a.inorder.iter().any(|&i| {
                    let p = &s.slots[i as usize].payload;
                    p.0 == id && p.1 == exp && p.2 == tag
                })
            }
            KSnap::List(v, _) => v.iter().any(|p| p.0 == id && p.1 == exp && p.2 == tag),
        }
    }

    fn stored_count(sub: &S) -> usize {
        match sub.snap() {
            KSnap::Tree(s) => inv::analyze(&s, |p| p.0).inorder.len(),
            KSnap::List(v, _) => v.len(),
        }
    }

    fn do_step(&self, o: &mut KObj<S>, st: Step, cx: &mut Cx) -> u32 {
        let prop = self.prop;
        let kind = st.op >> 16;
        let a = ((st.op >> 8) & 0xff) as u8;
        let b = (st.op & 0xff) as u8;
        let inj = if st.inj == NO_INJ { None } else { Some(st.inj) };
        let rel_t = o.t;
        let t = self.tb + o.t;
        let logging = self.f.o_log && !cx.muted;
        let sub = o.sub.as_mut().expect("subject present");
        let mut ncb = 0;
        match kind {
            K_INS => {
                let mut tag = o.ins_count[a as usize];
                if tag == PROBE_TAG {
                    tag = 0;
                }
                o.ins_count[a as usize] = tag.wrapping_add(1);
                let key = EKey { id: a, exp: self.tb + b, tag };
                let v = val_of(a, b);
                rt::cb_reset(inj);
                if logging {
                    rt::log_start();
                }
                let r = guard(|| sub.insert(key, v, t));
                ncb = rt::cb_count();
                let log = if logging { rt::log_stop() } else { vec![] };
                match r {
                    Ok(()) => {
                        if b > rel_t {
                            let pos = o.model.iter().position(|(id, _)| *id > a).unwrap_or(o.model.len());
                            o.model.insert(pos, (a, b));
                        }
                        if logging {
                            self.check_log(&log, Some(key), t, "insert", cx);
                        }
                        if inj.is_some() {
                            o.inj_used += 1;
                        }
                    }
                    Err(Caught::Panic(m)) => cx.violate(prop, "panic", format!("insert panicked: {m}")),
                    Err(Caught::Injected) => {
                        o.inj_used += 1;
                        cx.count("injected_panics_caught");
                        let sub = o.sub.as_ref().unwrap();
                        match guard(|| Self::physically_linked(sub, a, self.tb + b, tag)) {
                            Ok(true) => {
                                cx.count("post_panic_state_is_after");
                                if b > rel_t {
                                    let pos = o.model.iter().position(|(id, _)| *id > a).unwrap_or(o.model.len());
                                    o.model.insert(pos, (a, b));
                                }
                            }
                            Ok(false) => cx.count("post_panic_state_is_before"),
                            Err(_) => cx.violate(prop, "panic-after-unwind", "snapshot after a caught callback panic panicked".into()),
                        }
                    }
                }
            }
            K_FL | K_FLE | K_FLEBY | K_GET => {
                let key = EKey { id: a, exp: 0, tag: PROBE_TAG };
                rt::cb_reset(inj);
                if logging {
                    rt::log_start();
                }
                let r = guard(|| match kind {
                    K_FL => Some(sub.fl(t, 0, key)),
                    K_FLE => Some(sub.fle(t, 0, key)),
                    K_FLEBY => Some(sub.fleby(t, 0, a)),
                    _ => sub.get(t, key),
                });
                ncb = rt::cb_count();
                let log = if logging { rt::log_stop() } else { vec![] };
                match r {
                    Ok(got) => {
                        if inj.is_some() {
                            o.inj_used += 1;
                        }
                        if logging {
                            self.check_log(&log, None, t, "query", cx);
                        }
                        if kind == K_GET {
                            if self.f.o_get {
                                let want = o.model.iter().find(|(id, _)| *id == a).map(|(id, e)| val_of(*id, *e));
                                cx.evals += 1;
                                if got != want {
                                    cx.violate(prop, "get_value", format!("get_value(time {t}, key {a}) = {got:?}, reference says {want:?}"));
                                }
                            }
                        } else if self.f.o_pred {
                            let want = Self::expect_le(&o.model, a, kind == K_FL);
                            cx.evals += 1;
                            if got != Some(want) {
                                let nm = match kind {
                                    K_FL => "first_less",
                                    K_FLE => "first_less_or_equal",
                                    _ => "first_less_or_equal_by",
                                };
                                cx.violate(prop, nm, format!("{nm}(time {t}, probe {a}) = {:#x}, reference says {:#x} (0 = default)", got.unwrap_or(0), want));
                            }
                        }
                    }
                    Err(Caught::Panic(m)) => cx.violate(prop, "panic", format!("query panicked: {m}")),
                    Err(Caught::Injected) => {
                        o.inj_used += 1;
                        cx.count("injected_panics_caught");
                        cx.count("post_panic_state_is_before");
                    }
                }
            }
            K_TICK => {
                o.t += 1;
                let nt = o.t;
                o.model.retain(|(_, e)| *e > nt);
            }
            K_CLEAR | K_RESTART => {
                rt::cb_reset(inj);
                let r = guard(|| sub.clear());
                ncb = rt::cb_count();
                match r {
                    Ok(()) => {
                        o.model.clear();
                        if kind == K_RESTART {
                            o.t = 0;
                        }
                    }
                    Err(Caught::Panic(m)) => cx.violate(prop, "panic", format!("clear panicked: {m}")),
                    Err(Caught::Injected) => {
                        o.inj_used += 1;
                        cx.violate(prop, "torn", "clear invoked a user callback".into());
                    }
                }
            }
            K_EXPORT => {
                let tq = a;
                let sub = o.sub.take().unwrap();
                let stored = if self.f.o_cap { Self::stored_count(&sub) } else { 0 };
                rt::cb_reset(None);
                let abs_tq = self.tb + tq;
                let r = guard(move || sub.export(abs_tq));
                cx.evals += 1;
                cx.count("exports");
                match r {
                    Ok(v) => {
                        if self.f.o_export {
                            let want: Vec<u32> = o.model.iter().filter(|(_, e)| *e > tq).map(|(id, e)| val_of(*id, *e)).collect();
                            if v != want {
                                cx.violate(prop, "export", format!("into_ordered_vec({tq}) after this history = {:x?}, reference says {:x?}", v, want));
                            }
                        }
                        if self.f.o_cap {
                            let bound = 8 * stored + 64;
                            if v.capacity() > bound {
                                cx.violate(prop, "export-capacity", format!("into_ordered_vec({tq}) returned capacity {} for {} stored entries (bound 8n+64 = {})", v.capacity(), stored, bound));
                            }
                        }
                    }
                    Err(_) => cx.violate(prop, "export-panic", format!("into_ordered_vec({tq}) panicked: {}", rt::last_panic())),
                }
                // the object is consumed; continue with an empty one so that the harness stays usable
                o.sub = Some(S::new(self.hint));
                o.model.clear();
            }
            _ => panic!("bad op"),
        }
        rt::cb_disarm();
        ncb
    }

    fn clock_at(hist: &[Step]) -> u8 {
        let mut t = 0u8;
        for s in hist {
            match s.op >> 16 {
                K_TICK => t += 1,
                K_RESTART => t = 0,
                _ => {}
            }
        }
        t
    }

    fn state_checks(&self, o: &KObj<S>, cx: &mut Cx) {
        let prop = self.prop;
        let sub = o.sub.as_ref().unwrap();
        cx.evals += 1;
        if self.f.o_pred && !o.model.is_empty() && sub.is_empty() {
            cx.violate(prop, "is_empty", format!("is_empty() is true although {} live entries are stored", o.model.len()));
            return;
        }
        if self.f.o_rb || self.f.o_arena {
            match sub.snap() {
                KSnap::Tree(s) => {
                    let a = inv::analyze(&s, |p| p.0);
                    cx.class("shapes", inv::shape_hash(&s, &a));
                    if self.f.o_rb {
                        if let Some(e) = a.rb_errors.first() {
                            cx.violate(prop, "structure", e.clone());
                            return;
                        }
                        // every live entry must be physically present
                        for (id, e) in &o.model {
                            if !a.inorder.iter().any(|&i| s.slots[i as usize].payload.0 == *id && s.slots[i as usize].payload.1 == self.tb + *e) {
                                cx.violate(prop, "structure", format!("live entry (id {id}, exp {e}) is not linked in the tree"));
                                return;
                            }
                        }
                    }
                    if self.f.o_arena {
                        if let Some(e) = a.arena_errors.first() {
                            cx.violate(prop, "arena", e.clone());
                            return;
                        }
                        if a.walkable && a.inorder.len() + s.unused.len() + 1 != s.slots.len() {
                            cx.violate(prop, "arena", format!("{} linked + {} free + sentinel != {} slots", a.inorder.len(), s.unused.len(), s.slots.len()));
                            return;
                        }
                        if s.slots.len() > self.buffer_bound() {
                            cx.violate(prop, "growth", format!("buffer holds {} slots, bound for this universe is {}", s.slots.len(), self.buffer_bound()));
                        }
                    }
                }
                KSnap::List(v, m) => {
                    if self.f.o_rb {
                        if v.windows(2).any(|w| w[0].0 >= w[1].0) {
                            cx.violate(prop, "list-order", format!("list buffer not strictly sorted by key: {v:?}"));
                            return;
                        }
                        // (the cached earliest expiration is deliberately not inspected: only its observable
                        // consequences count, and those are exercised by the query / export transitions)
                        let _ = m;
                    }
                }
            }
        }
    }
}

impl<S: KSub> System for KSys<S> {
    type Obj = KObj<S>;
    fn name(&self) -> String {
        S::name()
    }
    fn prop(&self) -> &'static str {
        self.prop
    }
    fn fresh(&self, cx: &mut Cx) -> Option<KObj<S>> {
        rt::scrub_stack();
        rt::cb_reset(None);
        match guard(|| S::new(self.hint)) {
            Ok(sub) => Some(KObj { sub: Some(sub), model: vec![], t: 0, inj_used: 0, ins_count: [0; 256] }),
            Err(_) => {
                cx.violate(self.prop, "panic", format!("constructor panicked: {}", rt::last_panic()));
                None
            }
        }
    }
    fn enabled(&self, o: &KObj<S>, out: &mut Vec<u32>) {
        for i in 0..self.n {
            let k = 2 * i + 1;
            if !o.model.iter().any(|(id, _)| *id == k) {
                for e in o.t..=self.emax() {
                    out.push(op(K_INS, k, e));
                }
            }
        }
        for p in 0..=self.probes() {
            if self.f.fl {
                out.push(op(K_FL, p, 0));
            }
            if self.f.fle {
                out.push(op(K_FLE, p, 0));
            }
            if self.f.fleby {
                out.push(op(K_FLEBY, p, 0));
            }
            if self.f.get {
                out.push(op(K_GET, p, 0));
            }
        }
        if o.t < self.tmax {
            out.push(op(K_TICK, 0, 0));
        }
        if self.f.clear {
            out.push(op(K_CLEAR, 0, 0));
        }
        if self.f.restart && o.t > 0 {
            out.push(op(K_RESTART, 0, 0));
        }
    }
    fn step(&self, o: &mut KObj<S>, st: Step, cx: &mut Cx) -> u32 {
        self.do_step(o, st, cx)
    }
    fn check_state(&self, o: &KObj<S>, cx: &mut Cx) {
        rt::cb_reset(None);
        if guard(|| self.state_checks(o, cx)).is_err() {
            cx.violate(self.prop, "panic-in-observation", format!("an observation panicked: {}", rt::last_panic()));
        }
    }
    fn arrival(&self, hist: &[Step], cx: &mut Cx) {
        if !(self.f.o_export || self.f.o_cap) {
            return;
        }
        if hist.last().map(|s| s.op >> 16 == K_EXPORT).unwrap_or(false) {
            return;
        }
        let t0 = Self::clock_at(hist);
        for tq in t0..=self.emax() {
            let was = cx.muted;
            cx.muted = true;
            let o = engine::rebuild(self, hist, cx);
            cx.muted = was;
            let Some(mut o) = o else {
                return;
            };
            let st = Step::plain(op(K_EXPORT, tq, 0));
            rt::hist_push(st.enc());
            self.do_step(&mut o, st, cx);
            if !cx.viols.is_empty() {
                return;
            }
        }
    }
    fn canon(&self, o: &KObj<S>, out: &mut Vec<u8>) {
        out.push(o.t);
        out.push(o.inj_used as u8);
        out.push(o.model.len() as u8);
        for (id, e) in &o.model {
            out.push(*id);
            out.push(*e);
        }
        self.canon_sub(o.sub.as_ref().unwrap(), out);
    }
    fn raw_words(&self, o: &KObj<S>, out: &mut Vec<u64>) {
        rt::raw_words_of(o.sub.as_ref().unwrap(), out);
    }
    fn nontrivial(&self, o: &KObj<S>) -> bool {
        Self::stored_count(o.sub.as_ref().unwrap()) >= 2
    }
    fn may_inject(&self, o: &KObj<S>) -> bool {
        o.inj_used < self.inj_budget
    }
    fn audit_suffixes(&self, o: &KObj<S>) -> Vec<Vec<u32>> {
        let mut battery = vec![];
        for p in 0..=self.probes() {
            battery.push(op(K_GET, p, 0));
            battery.push(op(K_FLE, p, 0));
            battery.push(op(K_FL, p, 0));
            battery.push(op(K_FLEBY, p, 0));
        }
        let mut rev = battery.clone();
        rev.reverse();
        let mut v = vec![battery.clone(), rev];
        let mut with = |first: u32| {
            let mut h = vec![first];
            h.extend(battery.iter().copied());
            v.push(h);
        };
        with(op(K_CLEAR, 0, 0));
        if o.t > 0 {
            with(op(K_RESTART, 0, 0));
        }
        if o.t < self.tmax {
            with(op(K_TICK, 0, 0));
        }
        v
    }
    fn query_ops(&self, _o: &KObj<S>) -> Vec<u32> {
        let mut v = vec![];
        for p in 0..=self.probes() {
            v.push(op(K_GET, p, 0));
            v.push(op(K_FLE, p, 0));
            v.push(op(K_FL, p, 0));
            v.push(op(K_FLEBY, p, 0));
        }
        v
    }
    fn update_ops(&self, o: &KObj<S>) -> Vec<u32> {
        let mut v = vec![];
        self.enabled(o, &mut v);
        v.retain(|x| matches!(x >> 16, K_INS | K_TICK | K_CLEAR | K_RESTART));
        v
    }
    fn step_allowed(&self, o: &KObj<S>, op: u32) -> bool {
        let mut v = vec![];
        self.enabled(o, &mut v);
        v.contains(&op)
    }
    fn twin(&self, hist: &[Step], cx: &mut Cx) -> Option<KObj<S>> {
        if !self.f.o_twin {
            return None;
        }
        let pos = hist.iter().rposition(|s| matches!(s.op >> 16, K_CLEAR | K_RESTART))?;
        let mut t = self.fresh(cx)?;
        t.t = Self::clock_at(&hist[..=pos]);
        for &st in &hist[pos + 1..] {
            self.do_step(&mut t, st, cx);
        }
        Some(t)
    }
    fn observe(&self, o: &mut KObj<S>, out: &mut Vec<u64>) {
        rt::cb_reset(None);
        let t = self.tb + o.t;
        let n = self.probes();
        let mut sub = o.sub.take().unwrap();
        let r = guard(|| {
            let mut v: Vec<u64> = vec![sub.is_empty() as u64];
            for p in 0..=n {
                let key = EKey { id: p, exp: 0, tag: PROBE_TAG };
                v.push(sub.fl(t, 0, key) as u64);
                v.push(sub.fle(t, 0, key) as u64);
                v.push(sub.fleby(t, 0, p) as u64);
                v.push(sub.get(t, key).map(|x| x as u64).unwrap_or(u64::MAX));
            }
            v.push(sub.is_empty() as u64);
            // observable results only: the cached earliest expiration and the physical length of the list are
            // internals (C12 asks for observational identity with a new collection, not for equal fields)
            v
        });
        o.sub = Some(sub);
        match r {
            Ok(v) => out.extend(v),
            Err(_) => out.push(0xdead),
        }
    }
    fn fmt_op(&self, o: u32) -> String {
        let a = (o >> 8) & 0xff;
        let b = o & 0xff;
        match o >> 16 {
            K_INS => format!("Ins({a},{b})"),
            K_FL => format!("FL({a})"),
            K_FLE => format!("FLE({a})"),
            K_FLEBY => format!("FLEBY({a})"),
            K_GET => format!("GET({a})"),
            K_TICK => "Tick()".into(),
            K_CLEAR => "Clear()".into(),
            K_RESTART => "ClearRestart()".into(),
            K_EXPORT => format!("Export({a})"),
            _ => format!("?{o}"),
        }
    }
    fn parse_op(&self, s: &str) -> Option<u32> {
        let (name, rest) = s.split_once('(')?;
        let args: Vec<u8> = rest.trim_end_matches(')').split(',').filter(|x| !x.is_empty()).map(|x| x.trim().parse().ok()).collect::<Option<Vec<u8>>>()?;
        let a = args.first().copied().unwrap_or(0);
        let b = args.get(1).copied().unwrap_or(0);
        Some(match name {
            "Ins" => op(K_INS, a, b),
            "FL" => op(K_FL, a, 0),
            "FLE" => op(K_FLE, a, 0),
            "FLEBY" => op(K_FLEBY, a, 0),
            "GET" => op(K_GET, a, 0),
            "Tick" => op(K_TICK, 0, 0),
            "Clear" => op(K_CLEAR, 0, 0),
            "ClearRestart" => op(K_RESTART, 0, 0),
            "Export" => op(K_EXPORT, a, 0),
            _ => return None,
        })
    }
    fn describe(&self, o: &KObj<S>) -> String {
        let m: Vec<String> = o.model.iter().map(|(id, e)| format!("{id}@{e}")).collect();
        format!("t={} live{{{}}} physically_stored={}", o.t, m.join(","), Self::stored_count(o.sub.as_ref().unwrap()))
    }
}
