//! Explicit-state breadth-first exploration of the real implementation.
//!
//! A state is identified by the 128-bit fingerprint of its canonical byte string and is
//! represented by a history (parent pointer + step).  Objects are never cloned: every
//! expansion rebuilds the object from a fresh constructor by replaying the history on
//! the real code, and the fingerprint of the rebuilt object must equal the stored one
//! (determinism check; a mismatch is a machinery error, never a verdict).

use crate::json;
use crate::rt;
use std::collections::{BTreeMap, HashMap, HashSet};
use std::hash::{BuildHasherDefault, Hasher};
use std::sync::atomic::{AtomicBool, AtomicU64, AtomicUsize, Ordering};
use std::sync::Mutex;
use std::time::Instant;

pub const NO_INJ: u32 = u32::MAX;
pub static CRASH_ONLY: AtomicBool = AtomicBool::new(false);
/// marker pushed on the in-flight history while the observation suite runs
pub const OBSERVE_MARK: u64 = u64::MAX;

#[derive(Clone, Copy, PartialEq, Eq, PartialOrd, Ord, Debug)]
pub struct Step {
    pub op: u32,
    pub inj: u32,
}
impl Step {
    pub fn plain(op: u32) -> Self {
        Step { op, inj: NO_INJ }
    }
    pub fn enc(self) -> u64 {
        ((self.inj as u64) << 32) | self.op as u64
    }
    pub fn dec(v: u64) -> Self {
        Step { op: v as u32, inj: (v >> 32) as u32 }
    }
}

pub struct RawViol {
    pub prop: &'static str,
    pub tag: String,
    pub msg: String,
}

/// Per-worker context handed to the system.
pub struct Cx {
    pub viols: Vec<RawViol>,
    pub muted: bool,
    /// C10 sweeps: only process-outcome violations (panic / abort / hang) count
    pub crash_only: bool,
    /// set when crash_only dropped a functional violation: the transition is neither reported nor expanded
    pub halt: bool,
    pub suppressed: u64,
    pub counters: HashMap<&'static str, u64>,
    pub classes: Vec<(&'static str, u64)>,
    pub evals: u64,
}
impl Cx {
    pub fn new() -> Self {
        Cx { viols: vec![], muted: false, crash_only: CRASH_ONLY.load(Ordering::Relaxed), halt: false, suppressed: 0, counters: HashMap::new(), classes: vec![], evals: 0 }
    }
    #[inline]
    pub fn violate(&mut self, prop: &'static str, tag: &str, msg: String) {
        if self.crash_only && !tag.contains("panic") && !tag.contains("drop") {
            self.halt = true;
            return;
        }
        if !self.muted {
            self.viols.push(RawViol { prop, tag: tag.to_string(), msg });
        } else {
            self.suppressed += 1;
        }
    }
    #[inline]
    pub fn count(&mut self, k: &'static str) {
        if !self.muted {
            *self.counters.entry(k).or_insert(0) += 1;
        }
    }
    #[inline]
    pub fn add(&mut self, k: &'static str, n: u64) {
        if !self.muted {
            *self.counters.entry(k).or_insert(0) += n;
        }
    }
    #[inline]
    pub fn class(&mut self, k: &'static str, h: u64) {
        if !self.muted {
            self.classes.push((k, h));
        }
    }
}

pub trait System: Sync {
    type Obj;
    fn name(&self) -> String;
    /// Property this run decides (violations of the process-outcome oracle are filed under it).
    fn prop(&self) -> &'static str;
    fn fresh(&self, cx: &mut Cx) -> Option<Self::Obj>;
    fn enabled(&self, obj: &Self::Obj, out: &mut Vec<u32>);
    /// Execute one step on the real code and on the reference model, evaluating the
    /// transition oracles.  Returns the number of user callbacks the step invoked.
    fn step(&self, obj: &mut Self::Obj, st: Step, cx: &mut Cx) -> u32;
    /// State invariants and the (non-mutating) observation suite.
    fn check_state(&self, obj: &Self::Obj, cx: &mut Cx);
    /// Observations that need fresh replays of `hist` (consuming or mutating ones);
    /// evaluated on every transition arrival, not once per merged state.
    fn arrival(&self, _hist: &[Step], _cx: &mut Cx) {}
    fn canon(&self, obj: &Self::Obj, out: &mut Vec<u8>);
    /// The raw 8-byte words of the collection struct itself (not of what it points to).  Used with `--raw`:
    /// words that are stable between independent replays of one history (i.e. everything but heap pointers)
    /// join the state identity, so that state a changed implementation keeps in fields the snapshot hook
    /// does not copy (a cached slot, a memo, a counter) distinguishes states instead of being merged away.
    fn raw_words(&self, _obj: &Self::Obj, _out: &mut Vec<u64>) {}
    fn nontrivial(&self, obj: &Self::Obj) -> bool;
    /// May another fault be injected after this history?
    fn may_inject(&self, _obj: &Self::Obj) -> bool {
        false
    }
    /// Abstraction audit: short suffix histories to be executed *unmerged* (on a fresh replay, with all oracles)
    /// from every transition arrival, including arrivals at states that were seen before.  If state that the
    /// snapshot does not expose influences behaviour, equal canonical states have different futures and one of
    /// these suffixes deviates from the reference model.
    fn audit_suffixes(&self, _obj: &Self::Obj) -> Vec<Vec<u32>> {
        vec![]
    }
    /// Alphabet of the deep audit (unmerged depth-bounded enumeration from every new state): everything that
    /// is enabled plus the query operations, whose order matters when there is hidden state.
    fn deep_ops(&self, obj: &Self::Obj) -> Vec<u32> {
        let mut v = vec![];
        self.enabled(obj, &mut v);
        v
    }
    /// Query operations (do not change the logical contents) and update operations, for the
    /// query - updates - query audit.  An empty query list disables that audit for the system.
    fn query_ops(&self, _obj: &Self::Obj) -> Vec<u32> {
        vec![]
    }
    fn update_ops(&self, obj: &Self::Obj) -> Vec<u32> {
        let mut v = vec![];
        self.enabled(obj, &mut v);
        v
    }
    /// Is `op` within the contract in this state?  Used when a fixed history is continued after an
    /// injected panic changed which of its later steps are still in contract.
    fn step_allowed(&self, _obj: &Self::Obj, _op: u32) -> bool {
        true
    }
    /// Differential twin: a freshly constructed object driven by the suffix after the last clear.
    fn twin(&self, _hist: &[Step], _cx: &mut Cx) -> Option<Self::Obj> {
        None
    }
    fn observe(&self, _obj: &mut Self::Obj, _out: &mut Vec<u64>) {}
    fn fmt_op(&self, op: u32) -> String;
    fn parse_op(&self, s: &str) -> Option<u32>;
    fn fmt_step(&self, st: Step) -> String {
        if st.inj == NO_INJ {
            self.fmt_op(st.op)
        } else {
            format!("{}!panic@cb{}", self.fmt_op(st.op), st.inj)
        }
    }
    fn parse_step(&self, s: &str) -> Option<Step> {
        if let Some((a, b)) = s.split_once("!panic@cb") {
            Some(Step { op: self.parse_op(a)?, inj: b.parse().ok()? })
        } else {
            Some(Step::plain(self.parse_op(s)?))
        }
    }
    fn describe(&self, _obj: &Self::Obj) -> String {
        String::new()
    }
}

// ---------------------------------------------------------------------------

pub fn fingerprint(bytes: &[u8]) -> u128 {
    // two domain-separated SipHash-1-3 passes (std DefaultHasher with fixed keys)
    #[allow(deprecated)]
    let mut h1 = std::hash::SipHasher::new_with_keys(0x6974726565_6d63, 0x0123456789abcdef);
    #[allow(deprecated)]
    let mut h2 = std::hash::SipHasher::new_with_keys(0xfedcba9876543210, 0x76657269665f32);
    h1.write(bytes);
    h2.write(bytes);
    h2.write_usize(bytes.len());
    ((h1.finish() as u128) << 64) | h2.finish() as u128
}

pub fn hash64(v: &[u64]) -> u64 {
    let mut h = 0xcbf29ce484222325u64;
    for x in v {
        h ^= *x;
        h = h.wrapping_mul(0x100000001b3);
        h ^= h >> 29;
    }
    h
}

#[derive(Default)]
pub struct IdHasher(u64);
impl Hasher for IdHasher {
    fn finish(&self) -> u64 {
        self.0
    }
    fn write(&mut self, b: &[u8]) {
        for x in b {
            self.0 = (self.0 << 8) ^ *x as u64;
        }
    }
    fn write_u128(&mut self, v: u128) {
        self.0 = (v as u64) ^ ((v >> 64) as u64).rotate_left(17);
    }
    fn write_u64(&mut self, v: u64) {
        self.0 = v;
    }
}
type FpSet = HashSet<u128, BuildHasherDefault<IdHasher>>;
type FpMap<V> = HashMap<u128, V, BuildHasherDefault<IdHasher>>;
const SHARDS: usize = 256;
#[inline]
fn shard(fp: u128) -> usize {
    ((fp >> 100) as usize) & (SHARDS - 1)
}

#[derive(Clone, Copy)]
struct Node {
    fp: u128,
    /// fingerprint of the canonical (snapshot) part alone: what the replay determinism check compares
    cfp: u128,
    parent: u32,
    step: Step,
    depth: u32,
}

#[derive(Clone, Copy)]
struct Cand {
    parent: u32,
    step: Step,
    nontrivial: bool,
    cfp: u128,
}

#[derive(Clone, Debug)]
pub struct Violation {
    pub prop: String,
    pub sig: String,
    pub msg: String,
    pub hist: Vec<Step>,
    pub count: u64,
    pub replay: String,
}

pub struct Config {
    pub threads: usize,
    pub max_states: u64,
    pub max_secs: u64,
    pub max_depth: u32,
    pub inject: bool,
    pub hang_secs: u64,
    pub max_viol_sigs: usize,
    /// after the first violation of a level, finish the level for at most this long
    pub grace_secs: u64,
    /// run the observation suite and the audit suffixes on every arrival, not only on new states
    pub audit: bool,
    /// deep audit: from every state enumerate all unmerged suffixes of this length over `deep_ops`
    pub deep: u32,
    /// query - updates - query audit: from every state, every query, then every sequence of 1..=quq updates,
    /// then every query (each on its own replay, so that nothing refreshes a memo in between)
    pub quq: u32,
    /// number of trailing queries in the query - updates - query audit (2: every ordered pair of queries)
    pub quq_tail: u32,
    /// additional update levels (beyond `quq`) after which only the observation suite is run
    pub quq_cs: u32,
    /// raw-word state identity: 0 = off, otherwise the maximal number of raw variants kept per canonical state
    pub raw: u32,
}

pub struct Report {
    pub system: String,
    pub states: u64,
    pub transitions: u64,
    pub injections: u64,
    pub replays_validated: u64,
    pub levels: Vec<u64>,
    pub nontrivial: u64,
    pub exhaustive: bool,
    pub cap: String,
    pub violations: Vec<Violation>,
    pub counters: BTreeMap<String, u64>,
    pub classes: BTreeMap<String, u64>,
    pub samples: Vec<String>,
    pub evals: u64,
    pub wall_s: f64,
    pub machinery_error: Option<String>,
}

impl Report {
    pub fn to_json(&self) -> String {
        let mut o = json::Obj::new();
        o.str("system", &self.system);
        o.num("states", self.states);
        o.num("transitions", self.transitions);
        o.num("injections", self.injections);
        o.num("replays_validated", self.replays_validated);
        o.raw("levels", &json::arr_raw(&self.levels.iter().map(|x| x.to_string()).collect::<Vec<_>>()));
        o.num("depth", self.levels.len().saturating_sub(1));
        o.num("nontrivial", self.nontrivial);
        o.boolean("exhaustive", self.exhaustive);
        o.str("cap", &self.cap);
        o.num("evals", self.evals);
        o.raw("counters", &json::map_num(&self.counters));
        o.raw("distinct", &json::map_num(&self.classes));
        o.raw("samples", &json::arr_raw(&self.samples));
        let vs: Vec<String> = self
            .violations
            .iter()
            .map(|v| {
                let mut j = json::Obj::new();
                j.str("property_id", &v.prop);
                j.str("signature", &v.sig);
                j.str("message", &v.msg);
                j.num("count", v.count);
                j.str("replay", &v.replay);
                j.finish()
            })
            .collect();
        o.raw("violations", &json::arr_raw(&vs));
        o.num("wall_s", format!("{:.3}", self.wall_s));
        if let Some(e) = &self.machinery_error {
            o.str("machinery_error", e);
        }
        o.finish()
    }
}

/// Rebuild the object reached by `hist` from a fresh constructor on the real code.
pub fn rebuild<S: System>(sys: &S, hist: &[Step], cx: &mut Cx) -> Option<S::Obj> {
    rt::hist_reset();
    rt::scrub_stack();
    let mut obj = sys.fresh(cx)?;
    for &st in hist {
        rt::hist_push(st.enc());
        sys.step(&mut obj, st, cx);
        if !cx.viols.is_empty() {
            return None;
        }
    }
    Some(obj)
}

struct Shared<'a> {
    raw_mask: &'a Vec<bool>,
    nodes: &'a Vec<Node>,
    visited: &'a Vec<FpSet>,
    frontier: &'a Vec<u32>,
    next: AtomicUsize,
    stop: AtomicBool,
    err: Mutex<Option<String>>,
    transitions: AtomicU64,
    injections: AtomicU64,
    validated: AtomicU64,
    divergences: AtomicU64,
    viol_count: AtomicU64,
}

struct WorkerOut {
    cands: FpMap<Cand>,
    viols: HashMap<(String, String), (Violation, u64)>,
    counters: HashMap<&'static str, u64>,
    classes: HashMap<&'static str, HashSet<u64>>,
    evals: u64,
}

fn history_of(nodes: &[Node], mut sid: u32) -> Vec<Step> {
    let mut h = vec![];
    while sid != 0 {
        let n = &nodes[sid as usize];
        h.push(n.step);
        sid = n.parent;
    }
    h.reverse();
    h
}

fn op_kind(s: &str) -> String {
    s.split(|c| c == '(' || c == '!').next().unwrap_or("").to_string()
}

fn file_viols<S: System>(sys: &S, cx: &mut Cx, hist: &[Step], out: &mut WorkerOut, sh: &Shared) {
    let last = hist.last().map(|s| sys.fmt_step(*s)).unwrap_or_else(|| "new".into());
    let kind = op_kind(&last);
    let inj = hist.last().map(|s| s.inj != NO_INJ).unwrap_or(false);
    for v in cx.viols.drain(..) {
        let sig = format!("{}/{}{}/{}", sys.name(), kind, if inj { "!inj" } else { "" }, v.tag);
        let key = (v.prop.to_string(), sig.clone());
        sh.viol_count.fetch_add(1, Ordering::Relaxed);
        let nv = Violation { prop: v.prop.to_string(), sig, msg: v.msg, hist: hist.to_vec(), count: 1, replay: String::new() };
        match out.viols.get_mut(&key) {
            Some((old, c)) => {
                *c += 1;
                if (nv.hist.len(), &nv.hist) < (old.hist.len(), &old.hist) {
                    *old = nv;
                }
            }
            None => {
                out.viols.insert(key, (nv, 1));
            }
        }
    }
}

fn absorb(cx: &mut Cx, out: &mut WorkerOut) {
    for (k, h) in cx.classes.drain(..) {
        out.classes.entry(k).or_default().insert(h);
    }
}

#[allow(clippy::too_many_arguments)]
fn arrive<S: System>(
    sys: &S,
    cfg: &Config,
    sh: &Shared,
    out: &mut WorkerOut,
    cx: &mut Cx,
    hist: &mut Vec<Step>,
    obj: &mut S::Obj,
    sid: u32,
    buf: &mut Vec<u8>,
    obs_a: &mut Vec<u64>,
    obs_b: &mut Vec<u64>,
) {
    // hist already includes the step that was just executed on obj without violation.
    let st = *hist.last().unwrap();
    buf.clear();
    sys.canon(obj, buf);
    let cfp = fingerprint(buf);
    let fp = if cfg.raw > 0 { raw_extend(sys, obj, sh.raw_mask, buf) } else { cfp };
    let seen = sh.visited[shard(fp)].contains(&fp);
    let nontrivial = sys.nontrivial(obj);
    if !seen || cfg.audit {
        rt::hist_push(OBSERVE_MARK);
        sys.check_state(obj, cx);
        absorb(cx, out);
        if !cx.viols.is_empty() {
            file_viols(sys, cx, hist, out, sh);
            return;
        }
        if cx.halt {
            cx.halt = false;
            cx.count("functional_deviation_not_expanded(crash_only)");
            return;
        }
    }
    sys.arrival(hist, cx);
    if !cx.viols.is_empty() {
        file_viols(sys, cx, hist, out, sh);
        return;
    }
    if cx.halt {
        cx.halt = false;
        cx.count("functional_deviation_not_expanded(crash_only)");
        return;
    }
    if cfg.audit {
        let n0 = hist.len();
        for suf in sys.audit_suffixes(obj) {
            cx.muted = true;
            let r = rebuild(sys, hist, cx);
            cx.muted = false;
            let Some(mut o2) = r else {
                break;
            };
            cx.count("audit_suffixes");
            for op in suf {
                let st2 = Step::plain(op);
                rt::hist_push(st2.enc());
                hist.push(st2);
                sys.step(&mut o2, st2, cx);
                if cx.viols.is_empty() && !cx.halt {
                    sys.check_state(&o2, cx);
                    cx.classes.clear();
                }
                if !cx.viols.is_empty() || cx.halt {
                    break;
                }
            }
            let bad = !cx.viols.is_empty();
            if bad {
                file_viols(sys, cx, hist, out, sh);
            }
            cx.halt = false;
            hist.truncate(n0);
            if bad {
                return;
            }
        }
    }
    // differential twin
    cx.muted = true;
    let sup0 = cx.suppressed;
    let twin = sys.twin(hist, cx);
    cx.muted = false;
    cx.viols.clear();
    let twin = if cx.suppressed != sup0 { None } else { twin };
    if let Some(mut tw) = twin {
        obs_a.clear();
        obs_b.clear();
        sys.observe(obj, obs_a);
        sys.observe(&mut tw, obs_b);
        cx.count("twin_comparisons");
        if obs_a != obs_b {
            cx.violate("C12", "twin", format!("observations after clear differ from a fresh twin driven by the same suffix: {:?} vs {:?}", obs_a, obs_b));
            file_viols(sys, cx, hist, out, sh);
            return;
        }
    }
    if !seen {
        let c = Cand { parent: sid, step: st, nontrivial, cfp };
        match out.cands.get_mut(&fp) {
            Some(old) => {
                if (c.parent, c.step) < (old.parent, old.step) {
                    *old = c;
                }
            }
            None => {
                out.cands.insert(fp, c);
            }
        }
    }
}

/// Append the stable raw words of the subject struct to the canonical string and fingerprint the whole.
fn raw_extend<S: System>(sys: &S, obj: &S::Obj, mask: &[bool], buf: &mut Vec<u8>) -> u128 {
    let mut w: Vec<u64> = Vec::with_capacity(16);
    sys.raw_words(obj, &mut w);
    if std::env::var_os("ITREE_RAW_DEBUG").is_some() {
        static SEEN: Mutex<Option<HashMap<Vec<u8>, Vec<u64>>>> = Mutex::new(None);
        let mut g = SEEN.lock().unwrap();
        let m = g.get_or_insert_with(HashMap::new);
        let wm: Vec<u64> = w.iter().enumerate().map(|(i, x)| if mask.get(i).copied().unwrap_or(false) { *x } else { 0 }).collect();
        match m.get(buf.as_slice()) {
            Some(old) if *old != wm => eprintln!("RAWDIFF {:x?} vs {:x?}", old, wm),
            Some(_) => {}
            None => {
                m.insert(buf.clone(), wm);
            }
        }
    }
    buf.extend_from_slice(b"|raw|");
    for (i, x) in w.iter().enumerate() {
        if mask.get(i).copied().unwrap_or(false) {
            buf.extend_from_slice(&x.to_le_bytes());
        }
    }
    fingerprint(buf)
}

/// Which raw words are data and which are heap pointers (or otherwise unstable)?  The same short history is
/// replayed in several threads of their own (each gets a malloc arena of its own, so pointers differ in their
/// high bits too), twice per thread with junk allocations in between; a word is kept only if it is identical
/// in all of them, and this is repeated for several histories (a word must be stable for each).
fn raw_calibrate<S: System>(sys: &S) -> Vec<bool> {
    let mut mask: Vec<bool> = vec![];
    for variant in 0..6u32 {
        let runs: Vec<Vec<u64>> = std::thread::scope(|sc| {
            let hs: Vec<_> = (0..4u32)
                .map(|k| {
                    sc.spawn(move || {
                        let mut outs = vec![];
                        let mut junk: Vec<Vec<u8>> = vec![];
                        for rep in 0..2u32 {
                            for j in 0..(k * 3 + rep * 5 + 1) {
                                junk.push(vec![0u8; 24 + 40 * j as usize]);
                            }
                            let mut cx = Cx::new();
                            cx.muted = true;
                            rt::hist_reset();
                            rt::scrub_stack();
                            let Some(mut o) = sys.fresh(&mut cx) else {
                                continue;
                            };
                            let mut ops = vec![];
                            for i in 0..(2 + 2 * variant) {
                                ops.clear();
                                sys.enabled(&o, &mut ops);
                                if ops.is_empty() {
                                    break;
                                }
                                let op = ops[((i * 7 + 3 + variant * 5) as usize) % ops.len()];
                                sys.step(&mut o, Step::plain(op), &mut cx);
                            }
                            let mut w = vec![];
                            sys.raw_words(&o, &mut w);
                            outs.push(w);
                        }
                        rt::hist_idle();
                        outs
                    })
                })
                .collect();
            hs.into_iter().flat_map(|h| h.join().expect("calibration thread panicked")).collect()
        });
        let Some(first) = runs.first() else {
            continue;
        };
        if mask.is_empty() {
            mask = vec![true; first.len()];
        }
        for r in &runs {
            for i in 0..mask.len() {
                if r.get(i) != first.get(i) {
                    mask[i] = false;
                }
            }
        }
    }
    mask
}

/// Unmerged enumeration of every suffix of length <= depth from the state reached by `hist`.
fn deep_dfs<S: System>(sys: &S, depth: u32, hist: &mut Vec<Step>, cx: &mut Cx, out: &mut WorkerOut, sh: &Shared) {
    cx.muted = true;
    let base = rebuild(sys, hist, cx);
    cx.muted = false;
    let Some(base) = base else {
        return;
    };
    let ops = sys.deep_ops(&base);
    drop(base);
    for op in ops {
        cx.muted = true;
        let r = rebuild(sys, hist, cx);
        cx.muted = false;
        let Some(mut o) = r else {
            return;
        };
        let st = Step::plain(op);
        rt::hist_push(st.enc());
        hist.push(st);
        sys.step(&mut o, st, cx);
        cx.count("deep_audit_steps");
        if cx.viols.is_empty() && !cx.halt && depth == 1 {
            sys.check_state(&o, cx);
            cx.classes.clear();
        }
        if !cx.viols.is_empty() {
            file_viols(sys, cx, hist, out, sh);
        } else if cx.halt {
            cx.halt = false;
        } else if depth > 1 {
            drop(o);
            deep_dfs(sys, depth - 1, hist, cx, out, sh);
        }
        hist.pop();
        if sh.stop.load(Ordering::Relaxed) {
            return;
        }
    }
}

/// query - updates - query: see Config::quq
fn quq_audit<S: System>(sys: &S, m: u32, cs: u32, tail: u32, hist: &mut Vec<Step>, cx: &mut Cx, out: &mut WorkerOut, sh: &Shared) {
    cx.muted = true;
    let base = rebuild(sys, hist, cx);
    cx.muted = false;
    let Some(base) = base else {
        return;
    };
    let mut firsts: Vec<Option<u32>> = vec![None];
    firsts.extend(sys.query_ops(&base).into_iter().map(Some));
    drop(base);
    if firsts.len() == 1 {
        return;
    }
    for q1 in firsts {
        let n0 = hist.len();
        if let Some(q) = q1 {
            // the first query itself is checked like any step
            cx.muted = true;
            let r = rebuild(sys, hist, cx);
            cx.muted = false;
            let Some(mut o) = r else {
                return;
            };
            let sq = Step::plain(q);
            rt::hist_push(sq.enc());
            hist.push(sq);
            sys.step(&mut o, sq, cx);
            if !cx.viols.is_empty() {
                file_viols(sys, cx, hist, out, sh);
                hist.truncate(n0);
                continue;
            }
            cx.halt = false;
        }
        quq_updates(sys, m, cs, tail, q1, hist, cx, out, sh);
        hist.truncate(n0);
        if sh.stop.load(Ordering::Relaxed) {
            return;
        }
    }
}

fn quq_updates<S: System>(sys: &S, left: u32, cs_left: u32, tail: u32, first_q: Option<u32>, hist: &mut Vec<Step>, cx: &mut Cx, out: &mut WorkerOut, sh: &Shared) {
    // the prefix in `hist` has been validated step by step on the way here (or is replayed muted)
    cx.muted = true;
    let base = rebuild(sys, hist, cx);
    cx.muted = false;
    let Some(base) = base else {
        return;
    };
    let ups = sys.update_ops(&base);
    drop(base);
    for u in ups {
        cx.muted = true;
        let r = rebuild(sys, hist, cx);
        cx.muted = false;
        let Some(mut o) = r else {
            return;
        };
        let st = Step::plain(u);
        rt::hist_push(st.enc());
        hist.push(st);
        sys.step(&mut o, st, cx);
        cx.count("quq_steps");
        if !cx.viols.is_empty() {
            file_viols(sys, cx, hist, out, sh);
            hist.pop();
            continue;
        }
        if cx.halt {
            cx.halt = false;
            hist.pop();
            continue;
        }
        // the whole observation suite on this object (it is not used further)
        sys.check_state(&o, cx);
        cx.classes.clear();
        if !cx.viols.is_empty() {
            file_viols(sys, cx, hist, out, sh);
            hist.pop();
            continue;
        }
        cx.halt = false;
        // every query, each on its own replay of prefix + update(s)
        let qs = if left > 0 { sys.query_ops(&o) } else { vec![] };
        drop(o);
        for q in qs {
            cx.muted = true;
            let r = rebuild(sys, hist, cx);
            cx.muted = false;
            let Some(mut o2) = r else {
                break;
            };
            let sq = Step::plain(q);
            rt::hist_push(sq.enc());
            hist.push(sq);
            sys.step(&mut o2, sq, cx);
            cx.count("quq_steps");
            if !cx.viols.is_empty() {
                file_viols(sys, cx, hist, out, sh);
            } else if tail > 1 && !cx.halt {
                // a second trailing query after the first one (a memo refreshed or a flag consumed by the
                // first may leave the second with a stale answer)
                let mut qs2 = sys.query_ops(&o2);
                drop(o2);
                if tail == 3 {
                    // "repeat" mode: the second trailing query is the leading query again
                    qs2.retain(|q| Some(*q) == first_q);
                }
                for q3 in qs2 {
                    cx.muted = true;
                    let r = rebuild(sys, hist, cx);
                    cx.muted = false;
                    let Some(mut o3) = r else {
                        break;
                    };
                    let s3 = Step::plain(q3);
                    rt::hist_push(s3.enc());
                    hist.push(s3);
                    sys.step(&mut o3, s3, cx);
                    cx.count("quq_steps");
                    if !cx.viols.is_empty() {
                        file_viols(sys, cx, hist, out, sh);
                    }
                    cx.halt = false;
                    hist.pop();
                }
            }
            cx.halt = false;
            hist.pop();
        }
        if left > 1 {
            quq_updates(sys, left - 1, cs_left, tail, first_q, hist, cx, out, sh);
        } else if cs_left > 0 {
            quq_updates(sys, 0, cs_left - 1, tail, first_q, hist, cx, out, sh);
        }
        hist.pop();
        if sh.stop.load(Ordering::Relaxed) {
            return;
        }
    }
}

fn worker<S: System>(sys: &S, cfg: &Config, sh: &Shared, wid: usize) -> WorkerOut {
    rt::set_worker(wid);
    let mut out = WorkerOut { cands: FpMap::default(), viols: HashMap::new(), counters: HashMap::new(), classes: HashMap::new(), evals: 0 };
    let mut cx = Cx::new();
    let mut ops: Vec<u32> = vec![];
    let mut buf: Vec<u8> = vec![];
    let (mut oa, mut ob) = (vec![], vec![]);
    const BATCH: usize = 8;
    'outer: loop {
        let start = sh.next.fetch_add(BATCH, Ordering::Relaxed);
        if start >= sh.frontier.len() {
            break;
        }
        for fi in start..(start + BATCH).min(sh.frontier.len()) {
            if sh.stop.load(Ordering::Relaxed) {
                break 'outer;
            }
            let sid = sh.frontier[fi];
            let mut hist = history_of(sh.nodes, sid);
            // rebuild and validate determinism
            cx.muted = true;
            let base = rebuild(sys, &hist, &mut cx);
            cx.muted = false;
            let mut base = match base {
                Some(o) => o,
                None => {
                    *sh.err.lock().unwrap() = Some(format!("replay of a validated history failed: {:?}", hist.iter().map(|s| sys.fmt_step(*s)).collect::<Vec<_>>()));
                    sh.stop.store(true, Ordering::Relaxed);
                    break 'outer;
                }
            };
            buf.clear();
            sys.canon(&base, &mut buf);
            if fingerprint(&buf) != sh.nodes[sid as usize].cfp {
                // The same history produced another concrete state than when the state was discovered.  The
                // harness is deterministic (this comparison has succeeded billions of times on the unchanged
                // tree), so the subject's behaviour depends on something outside the object: state shared
                // between instances or left behind by earlier ones (a static, a thread-local).  That alone is
                // not a verdict - no property forbids it as long as every answer is right - so the state that
                // was actually rebuilt is expanded like any other (all oracles apply to its successors) and the
                // event is counted; the run is then no longer exhaustive in the stated sense.
                sh.divergences.fetch_add(1, Ordering::Relaxed);
                if sh.divergences.load(Ordering::Relaxed) > 200_000 {
                    *sh.err.lock().unwrap() = Some(format!("replay divergence on more than 200000 states, e.g. history {:?}", hist.iter().map(|s| sys.fmt_step(*s)).collect::<Vec<_>>()));
                    sh.stop.store(true, Ordering::Relaxed);
                    break 'outer;
                }
            } else {
                sh.validated.fetch_add(1, Ordering::Relaxed);
            }
            ops.clear();
            sys.enabled(&base, &mut ops);
            let can_inject = cfg.inject && sys.may_inject(&base);
            let nops = ops.len();
            for (j, &op) in ops.iter().enumerate() {
                if sh.stop.load(Ordering::Relaxed) {
                    break 'outer;
                }
                let st = Step::plain(op);
                // the last operation may consume the base object, all others get a fresh replay
                let mut fresh_obj;
                let obj: &mut S::Obj = if j + 1 == nops && !can_inject {
                    rt::hist_reset();
                    for h in &hist {
                        rt::hist_push(h.enc());
                    }
                    &mut base
                } else {
                    cx.muted = true;
                    let r = rebuild(sys, &hist, &mut cx);
                    cx.muted = false;
                    match r {
                        Some(o) => {
                            fresh_obj = o;
                            &mut fresh_obj
                        }
                        None => {
                            *sh.err.lock().unwrap() = Some("replay of a validated history failed (second rebuild)".into());
                            sh.stop.store(true, Ordering::Relaxed);
                            break 'outer;
                        }
                    }
                };
                rt::hist_push(st.enc());
                let ncb = sys.step(obj, st, &mut cx);
                sh.transitions.fetch_add(1, Ordering::Relaxed);
                hist.push(st);
                if !cx.viols.is_empty() {
                    file_viols(sys, &mut cx, &hist, &mut out, sh);
                } else if cx.halt {
                    cx.halt = false;
                    cx.count("functional_deviation_not_expanded(crash_only)");
                } else {
                    arrive(sys, cfg, sh, &mut out, &mut cx, &mut hist, obj, sid, &mut buf, &mut oa, &mut ob);
                }
                hist.pop();
                if can_inject {
                    for i in 0..ncb {
                        if sh.stop.load(Ordering::Relaxed) {
                            break 'outer;
                        }
                        let ist = Step { op, inj: i };
                        cx.muted = true;
                        let r = rebuild(sys, &hist, &mut cx);
                        cx.muted = false;
                        let mut o = match r {
                            Some(o) => o,
                            None => {
                                *sh.err.lock().unwrap() = Some("replay of a validated history failed (injection rebuild)".into());
                                sh.stop.store(true, Ordering::Relaxed);
                                break 'outer;
                            }
                        };
                        rt::hist_push(ist.enc());
                        sys.step(&mut o, ist, &mut cx);
                        sh.injections.fetch_add(1, Ordering::Relaxed);
                        hist.push(ist);
                        if !cx.viols.is_empty() {
                            file_viols(sys, &mut cx, &hist, &mut out, sh);
                        } else if cx.halt {
                            cx.halt = false;
                            cx.count("functional_deviation_not_expanded(crash_only)");
                        } else {
                            arrive(sys, cfg, sh, &mut out, &mut cx, &mut hist, &mut o, sid, &mut buf, &mut oa, &mut ob);
                        }
                        hist.pop();
                    }
                }
            }
            if cfg.deep > 0 {
                let mut h2 = hist.clone();
                deep_dfs(sys, cfg.deep, &mut h2, &mut cx, &mut out, sh);
            }
            if cfg.quq > 0 {
                let mut h2 = hist.clone();
                quq_audit(sys, cfg.quq, cfg.quq_cs, cfg.quq_tail, &mut h2, &mut cx, &mut out, sh);
            }
            rt::hist_idle();
        }
    }
    rt::hist_idle();
    out.evals = cx.evals;
    for (k, v) in cx.counters.drain() {
        *out.counters.entry(k).or_insert(0) += v;
    }
    out
}

pub fn explore<S: System>(sys: &S, cfg: &Config) -> Report {
    let t0 = Instant::now();
    let mut rep = Report {
        system: sys.name(),
        states: 0,
        transitions: 0,
        injections: 0,
        replays_validated: 0,
        levels: vec![],
        nontrivial: 0,
        exhaustive: false,
        cap: String::new(),
        violations: vec![],
        counters: BTreeMap::new(),
        classes: BTreeMap::new(),
        samples: vec![],
        evals: 0,
        wall_s: 0.0,
        machinery_error: None,
    };
    rt::set_worker(cfg.threads); // main thread uses a slot of its own
    let mut cx = Cx::new();
    let mut all_viols: HashMap<(String, String), (Violation, u64)> = HashMap::new();
    let mut classes: HashMap<&'static str, HashSet<u64>> = HashMap::new();

    let raw_mask: Vec<bool> = if cfg.raw > 0 { raw_calibrate(sys) } else { vec![] };
    let mut raw_variants: HashMap<u128, u32> = HashMap::new();
    let mut raw_dropped = 0u64;
    // initial state
    rt::hist_reset();
    rt::scrub_stack();
    let init = sys.fresh(&mut cx);
    let mut nodes: Vec<Node> = vec![];
    let mut visited: Vec<FpSet> = (0..SHARDS).map(|_| FpSet::default()).collect();
    let mut frontier: Vec<u32> = vec![];
    let mut buf = vec![];
    match init {
        Some(obj) if cx.viols.is_empty() => {
            sys.check_state(&obj, &mut cx);
            for (k, h) in cx.classes.drain(..) {
                classes.entry(k).or_default().insert(h);
            }
            sys.canon(&obj, &mut buf);
            let cfp = fingerprint(&buf);
            let fp = if cfg.raw > 0 { raw_extend(sys, &obj, &raw_mask, &mut buf) } else { cfp };
            nodes.push(Node { fp, cfp, parent: 0, step: Step::plain(0), depth: 0 });
            visited[shard(fp)].insert(fp);
            frontier.push(0);
            if sys.nontrivial(&obj) {
                rep.nontrivial += 1;
            }
        }
        _ => {}
    }
    if !cx.viols.is_empty() {
        for v in cx.viols.drain(..) {
            let sig = format!("{}/new/{}", sys.name(), v.tag);
            all_viols.insert((v.prop.to_string(), sig.clone()), (Violation { prop: v.prop.to_string(), sig, msg: v.msg, hist: vec![], count: 1, replay: String::new() }, 1));
        }
        frontier.clear();
    }
    rt::hist_idle();
    rep.levels.push(frontier.len() as u64);

    let done = spawn_watchdog(cfg.hang_secs);

    let mut depth = 0u32;
    let mut capped = String::new();
    let mut total_divergences = 0u64;
    while !frontier.is_empty() {
        if depth >= cfg.max_depth {
            capped = format!("max_depth {} reached with {} unexpanded states", cfg.max_depth, frontier.len());
            break;
        }
        let sh = Shared {
            raw_mask: &raw_mask,
            nodes: &nodes,
            visited: &visited,
            frontier: &frontier,
            next: AtomicUsize::new(0),
            stop: AtomicBool::new(false),
            err: Mutex::new(None),
            transitions: AtomicU64::new(0),
            injections: AtomicU64::new(0),
            validated: AtomicU64::new(0),
            divergences: AtomicU64::new(0),
            viol_count: AtomicU64::new(0),
        };
        let mut first_viol_at: Option<Instant> = None;
        let mut viol_stop = false;
        let outs: Vec<WorkerOut> = std::thread::scope(|sc| {
            let hs: Vec<_> = (0..cfg.threads)
                .map(|w| {
                    let shr = &sh;
                    sc.spawn(move || worker(sys, cfg, shr, w))
                })
                .collect();
            // time cap supervision
            loop {
                if hs.iter().all(|h| h.is_finished()) {
                    break;
                }
                if t0.elapsed().as_secs() > cfg.max_secs {
                    sh.stop.store(true, Ordering::Relaxed);
                }
                if sh.viol_count.load(Ordering::Relaxed) > 0 {
                    match first_viol_at {
                        None => first_viol_at = Some(Instant::now()),
                        Some(t) if t.elapsed().as_secs() >= cfg.grace_secs => {
                            viol_stop = true;
                            sh.stop.store(true, Ordering::Relaxed);
                        }
                        _ => {}
                    }
                }
                std::thread::sleep(std::time::Duration::from_millis(20));
            }
            hs.into_iter().map(|h| h.join().expect("worker thread panicked (machinery error)")).collect()
        });
        rep.transitions += sh.transitions.load(Ordering::Relaxed);
        rep.injections += sh.injections.load(Ordering::Relaxed);
        rep.replays_validated += sh.validated.load(Ordering::Relaxed);
        let dv = sh.divergences.load(Ordering::Relaxed);
        if dv > 0 {
            *rep.counters.entry("replay_divergences(subject_depends_on_state_outside_the_object)".into()).or_insert(0) += dv;
            total_divergences += dv;
        }
        let stopped = sh.stop.load(Ordering::Relaxed);
        if let Some(e) = sh.err.lock().unwrap().take() {
            rep.machinery_error = Some(e);
        }
        // merge
        let mut merged: FpMap<Cand> = FpMap::default();
        for o in outs {
            rep.evals += o.evals;
            for (k, v) in o.counters {
                *rep.counters.entry(k.to_string()).or_insert(0) += v;
            }
            for (k, s) in o.classes {
                classes.entry(k).or_default().extend(s);
            }
            for (k, (v, c)) in o.viols {
                match all_viols.get_mut(&k) {
                    Some((old, oc)) => {
                        *oc += c;
                        if (v.hist.len(), &v.hist) < (old.hist.len(), &old.hist) {
                            *old = v;
                        }
                    }
                    None => {
                        all_viols.insert(k, (v, c));
                    }
                }
            }
            for (fp, c) in o.cands {
                match merged.get_mut(&fp) {
                    Some(old) => {
                        if (c.parent, c.step) < (old.parent, old.step) {
                            *old = c;
                        }
                    }
                    None => {
                        merged.insert(fp, c);
                    }
                }
            }
        }
        if rep.machinery_error.is_some() {
            capped = "machinery error".into();
            break;
        }
        if stopped && (viol_stop || !all_viols.is_empty()) {
            capped = format!("stopped at depth {} after the first violations were found", depth);
            break;
        }
        if stopped {
            capped = format!("time cap {} s hit while expanding depth {} (levels below are complete)", cfg.max_secs, depth);
            break;
        }
        if !all_viols.is_empty() {
            capped = format!("stopped after depth {}: violations found (BFS order: these are shortest counterexamples)", depth);
            break;
        }
        let mut newv: Vec<(u128, Cand)> = merged.into_iter().collect();
        newv.sort_by(|a, b| a.0.cmp(&b.0));
        frontier = Vec::with_capacity(newv.len());
        depth += 1;
        for (fp, c) in newv {
            if cfg.raw > 0 {
                // at most `raw` variants of one canonical state: should a raw word turn out to be unstable
                // (padding, a pointer the calibration took for data) the search still terminates
                let n = raw_variants.entry(c.cfp).or_insert(0);
                if *n >= cfg.raw {
                    raw_dropped += 1;
                    continue;
                }
                *n += 1;
            }
            let id = nodes.len() as u32;
            nodes.push(Node { fp, cfp: c.cfp, parent: c.parent, step: c.step, depth });
            visited[shard(fp)].insert(fp);
            frontier.push(id);
            if c.nontrivial {
                rep.nontrivial += 1;
            }
        }
        if !frontier.is_empty() {
            rep.levels.push(frontier.len() as u64);
        }
        if nodes.len() as u64 > cfg.max_states {
            capped = format!("state cap {} exceeded at depth {}", cfg.max_states, depth);
            break;
        }
        if all_viols.len() >= cfg.max_viol_sigs {
            capped = format!("{} distinct violation signatures, stopped", all_viols.len());
            break;
        }
    }
    done.store(true, Ordering::Relaxed);
    if cfg.raw > 0 {
        let canon_states = nodes.iter().map(|n| n.cfp).collect::<HashSet<u128>>().len() as u64;
        rep.counters.insert("raw_identity_canonical_states".into(), canon_states);
        rep.counters.insert("raw_identity_extra_variants".into(), nodes.len() as u64 - canon_states);
        rep.counters.insert("raw_identity_variants_dropped_at_cap".into(), raw_dropped);
        rep.counters.insert("raw_identity_stable_words".into(), raw_mask.iter().filter(|b| **b).count() as u64);
        rep.counters.insert("raw_identity_masked_words".into(), raw_mask.iter().filter(|b| !**b).count() as u64);
    }
    rep.states = nodes.len() as u64;
    if total_divergences > 0 && capped.is_empty() {
        capped = format!("{total_divergences} rebuilt states differed from the recorded ones (the subject is not a function of its own history); merged search not exhaustive");
    }
    rep.exhaustive = capped.is_empty() && all_viols.is_empty();
    if capped.is_empty() && !all_viols.is_empty() {
        capped = "violating transitions are not expanded further".into();
    }
    rep.cap = capped;
    for (k, s) in classes {
        rep.classes.insert(k.to_string(), s.len() as u64);
    }
    // samples: deepest state, a middle one and the first non-initial one
    let pick: Vec<usize> = if nodes.len() > 2 { vec![1, nodes.len() / 2, nodes.len() - 1] } else { (0..nodes.len()).collect() };
    for i in pick {
        let h = history_of(&nodes, i as u32);
        let hs: Vec<String> = h.iter().map(|s| sys.fmt_step(*s)).collect();
        let mut cxs = Cx::new();
        cxs.muted = true;
        let desc = rebuild(sys, &h, &mut cxs).map(|o| sys.describe(&o)).unwrap_or_default();
        let mut j = json::Obj::new();
        j.strs("history", &hs);
        j.num("depth", nodes[i].depth);
        j.str("state", &desc);
        rep.samples.push(j.finish());
    }
    rt::hist_idle();
    let mut vs: Vec<Violation> = all_viols
        .into_iter()
        .map(|(_, (mut v, c))| {
            v.count = c;
            v
        })
        .collect();
    vs.sort_by(|a, b| (a.hist.len(), &a.sig).cmp(&(b.hist.len(), &b.sig)));
    for v in vs.iter_mut() {
        let hs: Vec<String> = v.hist.iter().map(|s| sys.fmt_step(*s)).collect();
        v.replay = rt::write_replay(&v.prop, &v.sig, &v.msg, &hs, "");
    }
    rep.violations = vs;
    rep.wall_s = t0.elapsed().as_secs_f64();
    rep
}

/// Re-execute a history on a fresh object without the explorer; returns the violations seen.
pub fn replay<S: System>(sys: &S, steps: &[String]) -> Result<Vec<(String, String, String)>, String> {
    rt::set_worker(0);
    let mut cx = Cx::new();
    let mut hist: Vec<Step> = vec![];
    for s in steps {
        if s == "Observe()" {
            continue;
        }
        hist.push(sys.parse_step(s).ok_or_else(|| format!("cannot parse step {s:?}"))?);
    }
    let mut found = vec![];
    rt::hist_reset();
    let obj = sys.fresh(&mut cx);
    let mut cur: Vec<Step> = vec![];
    let kind_of = |sys: &S, cur: &Vec<Step>| -> String {
        let last = cur.last().map(|s| sys.fmt_step(*s)).unwrap_or_else(|| "new".into());
        let inj = cur.last().map(|s| s.inj != NO_INJ).unwrap_or(false);
        format!("{}{}", op_kind(&last), if inj { "!inj" } else { "" })
    };
    let take = |sys: &S, cx: &mut Cx, cur: &Vec<Step>, found: &mut Vec<(String, String, String)>| {
        for v in cx.viols.drain(..) {
            found.push((v.prop.to_string(), format!("{}/{}/{}", sys.name(), kind_of(sys, cur), v.tag), v.msg));
        }
    };
    take(sys, &mut cx, &cur, &mut found);
    let mut obj = match obj {
        Some(o) => o,
        None => return Ok(found),
    };
    for &st in &hist {
        rt::hist_push(st.enc());
        cur.push(st);
        sys.step(&mut obj, st, &mut cx);
        if !cx.viols.is_empty() {
            take(sys, &mut cx, &cur, &mut found);
            return Ok(found);
        }
    }
    sys.check_state(&obj, &mut cx);
    take(sys, &mut cx, &cur, &mut found);
    if found.is_empty() && !hist.is_empty() {
        sys.arrival(&hist, &mut cx);
        take(sys, &mut cx, &cur, &mut found);
    }
    if found.is_empty() {
        cx.muted = true;
        let tw = sys.twin(&hist, &mut cx);
        cx.muted = false;
        cx.viols.clear();
        if let Some(mut tw) = tw {
            let (mut a, mut b) = (vec![], vec![]);
            sys.observe(&mut obj, &mut a);
            sys.observe(&mut tw, &mut b);
            if a != b {
                found.push(("C12".into(), format!("{}/{}/twin", sys.name(), kind_of(sys, &cur)), format!("{a:?} vs {b:?}")));
            }
        }
    }
    rt::hist_idle();
    Ok(found)
}

/// Drive a finite family of deterministic histories through the same step / oracle pipeline as
/// the search (no state merging: every history is executed once, every prefix state is checked).
pub static INJECT_WINDOW: std::sync::OnceLock<(usize, usize)> = std::sync::OnceLock::new();

pub fn run_histories<S: System>(sys: &S, hists: &[Vec<String>], threads: usize, inject: bool, sparse: bool) -> Report {
    let t0 = Instant::now();
    let wd = spawn_watchdog(20);
    let next = AtomicUsize::new(0);
    let inj_work: std::sync::Mutex<Vec<(Vec<Step>, Vec<u32>)>> = std::sync::Mutex::new(vec![]);
    struct Out {
        fps: HashSet<u128>,
        transitions: u64,
        injections: u64,
        nontrivial: u64,
        evals: u64,
        counters: HashMap<&'static str, u64>,
        viols: HashMap<(String, String), (Violation, u64)>,
        err: Option<String>,
    }
    let outs: Vec<Out> = std::thread::scope(|sc| {
        let hs: Vec<_> = (0..threads)
            .map(|w| {
                let next = &next;
                let inj_work = &inj_work;
                sc.spawn(move || {
                    rt::set_worker(w);
                    let mut o = Out { fps: HashSet::new(), transitions: 0, injections: 0, nontrivial: 0, evals: 0, counters: HashMap::new(), viols: HashMap::new(), err: None };
                    let mut cx = Cx::new();
                    let mut buf = vec![];
                    loop {
                        let i = next.fetch_add(1, Ordering::Relaxed);
                        if i >= hists.len() {
                            break;
                        }
                        let mut steps = vec![];
                        for s in &hists[i] {
                            match sys.parse_step(s) {
                                Some(st) => steps.push(st),
                                None => {
                                    o.err = Some(format!("cannot parse step {s:?}"));
                                    return o;
                                }
                            }
                        }
                        rt::hist_reset();
                        let file = |cx: &mut Cx, cur: &[Step], o: &mut Out| {
                            let last = cur.last().map(|s| sys.fmt_step(*s)).unwrap_or_else(|| "new".into());
                            for v in cx.viols.drain(..) {
                                let sig = format!("{}/{}/{}", sys.name(), op_kind(&last), v.tag);
                                let key = (v.prop.to_string(), sig.clone());
                                let nv = Violation { prop: v.prop.to_string(), sig, msg: v.msg, hist: cur.to_vec(), count: 1, replay: String::new() };
                                match o.viols.get_mut(&key) {
                                    Some((old, c)) => {
                                        *c += 1;
                                        if nv.hist.len() < old.hist.len() {
                                            *old = nv;
                                        }
                                    }
                                    None => {
                                        o.viols.insert(key, (nv, 1));
                                    }
                                }
                            }
                        };
                        let Some(mut obj) = sys.fresh(&mut cx) else {
                            file(&mut cx, &[], &mut o);
                            continue;
                        };
                        let mut ok = true;
                        let mut ncbs: Vec<u32> = vec![];
                        for (k, &st) in steps.iter().enumerate() {
                            rt::hist_push(st.enc());
                            ncbs.push(sys.step(&mut obj, st, &mut cx));
                            o.transitions += 1;
                            if cx.viols.is_empty() && !cx.halt && (!sparse || k % 16 == 15 || k + 1 == steps.len()) {
                                rt::hist_push(OBSERVE_MARK);
                                sys.check_state(&obj, &mut cx);
                                cx.classes.clear();
                            }
                            if !cx.viols.is_empty() || cx.halt {
                                cx.halt = false;
                                file(&mut cx, &steps[..=k], &mut o);
                                ok = false;
                                break;
                            }
                            buf.clear();
                            sys.canon(&obj, &mut buf);
                            if o.fps.insert(fingerprint(&buf)) && sys.nontrivial(&obj) {
                                o.nontrivial += 1;
                            }
                        }
                        if ok {
                            // differential twin at the end of the history (suffix after the last clear on a new object)
                            cx.muted = true;
                            let sup0 = cx.suppressed;
                            let tw = sys.twin(&steps, &mut cx);
                            cx.muted = false;
                            cx.viols.clear();
                            if let (Some(mut tw), true) = (tw, cx.suppressed == sup0) {
                                let (mut oa, mut ob) = (vec![], vec![]);
                                sys.observe(&mut obj, &mut oa);
                                sys.observe(&mut tw, &mut ob);
                                cx.count("twin_comparisons");
                                if oa != ob {
                                    cx.violate("C12", "twin", "observations after clear differ from a fresh twin driven by the same suffix".to_string());
                                    file(&mut cx, &steps, &mut o);
                                }
                            }
                        }
                        if ok {
                            sys.arrival(&steps, &mut cx);
                            if !cx.viols.is_empty() {
                                file(&mut cx, &steps, &mut o);
                            }
                            cx.halt = false;
                        }
                        // fault enumeration (second phase below): a panic at every callback invocation of every step
                        if ok && inject {
                            inj_work.lock().unwrap().push((steps, ncbs));
                        }
                    }
                    rt::hist_idle();
                    o.evals = cx.evals;
                    o.counters = std::mem::take(&mut cx.counters);
                    o
                })
            })
            .collect();
        hs.into_iter().map(|h| h.join().expect("family worker panicked (machinery error)")).collect()
    });
    // Second phase: the fault enumeration of every validated history, spread over the workers per (history, step)
    // so that a few long histories do not serialise: for each step k and each callback i of that step, rebuild the
    // prefix, run step k with a panic at callback i, check the state, then run and check the rest of the history.
    let mut outs = outs;
    let mut work = inj_work.into_inner().unwrap();
    work.sort_by(|a, b| a.0.iter().map(|s| s.enc()).cmp(b.0.iter().map(|s| s.enc())));
    if !work.is_empty() && outs.iter().all(|o| o.err.is_none()) {
        // optional window: only steps lo..hi of each history get the fault enumeration (a long history whose
        // interesting steps are known, e.g. the inserts that make a list grow past 32 entries)
        let (wlo, whi) = INJECT_WINDOW.get().copied().unwrap_or((0, usize::MAX));
        let items: Vec<(usize, usize)> = work.iter().enumerate().flat_map(|(h, (st, _))| (0..st.len()).filter(move |k| *k >= wlo && *k < whi).map(move |k| (h, k))).collect();
        let next = AtomicUsize::new(0);
        let failed: Vec<AtomicBool> = work.iter().map(|_| AtomicBool::new(false)).collect();
        let outs2: Vec<Out> = std::thread::scope(|sc| {
            let hs: Vec<_> = (0..threads)
                .map(|w| {
                    let (next, items, work, failed) = (&next, &items, &work, &failed);
                    sc.spawn(move || {
                        rt::set_worker(w);
                        let mut o = Out { fps: HashSet::new(), transitions: 0, injections: 0, nontrivial: 0, evals: 0, counters: HashMap::new(), viols: HashMap::new(), err: None };
                        let mut cx = Cx::new();
                        loop {
                            let n = next.fetch_add(1, Ordering::Relaxed);
                            if n >= items.len() {
                                break;
                            }
                            let (h, k) = items[n];
                            if failed[h].load(Ordering::Relaxed) {
                                continue;
                            }
                            let (steps, ncbs) = &work[h];
                            for i in 0..ncbs[k] {
                                rt::hist_reset();
                                cx.muted = true;
                                let pre = rebuild(sys, &steps[..k], &mut cx);
                                cx.muted = false;
                                let Some(mut ob) = pre else {
                                    o.err = Some("replay of a validated prefix failed (family injection)".into());
                                    return o;
                                };
                                let mut cur: Vec<Step> = steps[..k].to_vec();
                                let ist = Step { op: steps[k].op, inj: i };
                                cur.push(ist);
                                rt::hist_push(ist.enc());
                                sys.step(&mut ob, ist, &mut cx);
                                o.injections += 1;
                                let mut bad = !cx.viols.is_empty() || cx.halt;
                                if !bad {
                                    rt::hist_push(OBSERVE_MARK);
                                    sys.check_state(&ob, &mut cx);
                                    cx.classes.clear();
                                    bad = !cx.viols.is_empty() || cx.halt;
                                }
                                let mut j = k + 1;
                                while !bad && j < steps.len() {
                                    if !sys.step_allowed(&ob, steps[j].op) {
                                        j += 1;
                                        continue;
                                    }
                                    rt::hist_push(steps[j].enc());
                                    cur.push(steps[j]);
                                    sys.step(&mut ob, steps[j], &mut cx);
                                    o.transitions += 1;
                                    if cx.viols.is_empty() && !cx.halt {
                                        sys.check_state(&ob, &mut cx);
                                        cx.classes.clear();
                                    }
                                    bad = !cx.viols.is_empty() || cx.halt;
                                    j += 1;
                                }
                                if bad {
                                    cx.halt = false;
                                    let had = !cx.viols.is_empty();
                                    let last = cur.last().map(|s| sys.fmt_step(*s)).unwrap_or_else(|| "new".into());
                                    for v in cx.viols.drain(..) {
                                        let sig = format!("{}/{}/{}", sys.name(), op_kind(&last), v.tag);
                                        let key = (v.prop.to_string(), sig.clone());
                                        let nv = Violation { prop: v.prop.to_string(), sig, msg: v.msg, hist: cur.to_vec(), count: 1, replay: String::new() };
                                        match o.viols.get_mut(&key) {
                                            Some((old, c)) => {
                                                *c += 1;
                                                if nv.hist.len() < old.hist.len() {
                                                    *old = nv;
                                                }
                                            }
                                            None => {
                                                o.viols.insert(key, (nv, 1));
                                            }
                                        }
                                    }
                                    if had {
                                        // one reported injection per history is enough: skip its remaining items
                                        failed[h].store(true, Ordering::Relaxed);
                                        break;
                                    }
                                }
                            }
                        }
                        rt::hist_idle();
                        o.evals = cx.evals;
                        o.counters = std::mem::take(&mut cx.counters);
                        o
                    })
                })
                .collect();
            hs.into_iter().map(|h| h.join().expect("family worker panicked (machinery error)")).collect()
        });
        outs.extend(outs2);
    }
    let mut rep = Report {
        system: sys.name(),
        states: 0,
        transitions: 0,
        injections: 0,
        replays_validated: 0,
        levels: vec![],
        nontrivial: 0,
        exhaustive: true,
        cap: String::new(),
        violations: vec![],
        counters: BTreeMap::new(),
        classes: BTreeMap::new(),
        samples: vec![],
        evals: 0,
        wall_s: 0.0,
        machinery_error: None,
    };
    let mut fps: HashSet<u128> = HashSet::new();
    let mut all: HashMap<(String, String), (Violation, u64)> = HashMap::new();
    for o in outs {
        fps.extend(o.fps);
        rep.transitions += o.transitions;
        rep.injections += o.injections;
        rep.nontrivial += o.nontrivial;
        rep.evals += o.evals;
        for (k, v) in o.counters {
            *rep.counters.entry(k.to_string()).or_insert(0) += v;
        }
        if o.err.is_some() {
            rep.machinery_error = o.err;
        }
        for (k, (v, c)) in o.viols {
            match all.get_mut(&k) {
                Some((old, oc)) => {
                    *oc += c;
                    if v.hist.len() < old.hist.len() {
                        *old = v;
                    }
                }
                None => {
                    all.insert(k, (v, c));
                }
            }
        }
    }
    rep.states = fps.len() as u64;
    rep.counters.insert("histories".into(), hists.len() as u64);
    let mut vs: Vec<Violation> = all.into_iter().map(|(_, (mut v, c))| { v.count = c; v }).collect();
    vs.sort_by(|a, b| (a.hist.len(), &a.sig).cmp(&(b.hist.len(), &b.sig)));
    for v in vs.iter_mut() {
        let hs: Vec<String> = v.hist.iter().map(|s| sys.fmt_step(*s)).collect();
        v.replay = rt::write_replay(&v.prop, &v.sig, &v.msg, &hs, "");
    }
    rep.exhaustive = vs.is_empty();
    rep.violations = vs;
    for h in hists.iter().take(1).chain(hists.iter().skip(hists.len() / 2).take(1)) {
        let short: Vec<String> = if h.len() > 24 { h[..12].iter().cloned().chain(std::iter::once(format!("… {} more steps …", h.len() - 18))).chain(h[h.len() - 6..].iter().cloned()).collect() } else { h.clone() };
        rep.samples.push(json::arr_str(&short));
    }
    rep.wall_s = t0.elapsed().as_secs_f64();
    wd.store(true, Ordering::Relaxed);
    rep
}


/// Watchdog: an operation that does not return within `hang` seconds is reported as a hang
/// (non-terminating loop) with the history in flight, and the process exits 1.
pub fn spawn_watchdog(hang: u64) -> std::sync::Arc<AtomicBool> {
    let done = std::sync::Arc::new(AtomicBool::new(false));
    let d2 = done.clone();
    std::thread::spawn(move || {
        let slots = rt::slots();
        let mut last: Vec<(u64, Instant)> = slots.iter().map(|s| (s.beat.load(Ordering::Relaxed), Instant::now())).collect();
        while !d2.load(Ordering::Relaxed) {
            std::thread::sleep(std::time::Duration::from_millis(500));
            for (i, s) in slots.iter().enumerate() {
                let b = s.beat.load(Ordering::Relaxed);
                if b != last[i].0 || !s.busy.load(Ordering::Relaxed) {
                    last[i] = (b, Instant::now());
                } else if last[i].1.elapsed().as_secs() >= hang {
                    let hist = rt::fmt_hist(&rt::slot_history(s));
                    let (prop, sys) = rt::RUN.get().map(|r| (r.prop.clone(), r.sys_name.clone())).unwrap_or_default();
                    let kind = op_kind(hist.last().map(|s| s.as_str()).unwrap_or(""));
                    let sig = format!("{sys}/{kind}/hang");
                    let path = rt::write_replay(&prop, &sig, &format!("operation did not return within {hang} s (non-terminating loop)"), &hist, "");
                    rt::print_line(&format!("HANG signature={sig} message=operation did not return within {hang} s (non-terminating loop)"));
                    rt::print_line(&format!("VIOLATION property={prop} replay={path}"));
                    std::process::exit(1);
                }
            }
        }
    });
    done
}
