#!/usr/bin/env python3
"""Regenerates MANIFEST.json from the run table (specs.py) and the texts below."""
import json
import os
import subprocess
import sys

HERE = os.path.dirname(os.path.abspath(__file__))
sys.path.insert(0, HERE)
from specs import SPECS  # noqa: E402

TEXT = {
    "C01": ("Explicit-state BFS to a fixpoint over every interleaving of insert / three predecessor queries x all probes / tick / clear / clock-restart on the real KeyExpTree, every answer compared with a Vec reference model; includes t == expiration, expired nodes on the search path, re-insertion of expired keys and arena growth.", "5"),
    "C02": ("Red-black, search-order, link-consistency, sentinel and height invariants evaluated on a structural snapshot of every reachable state of MapTree, SetTree and KeyExpTree (fixpoint over small universes, shape-reduced search across arena growth); removal-case histogram reported.", "5"),
    "C03": ("Complete enumeration of all 528x528 (insert range, query range) pairs x expiration/time combinations on the 32-point domain, plus fixpoint BFS with population bound over several domains with partially consumed iterators, clears and clock restarts; multiset oracle.", "5"),
    "C04": ("Fixpoint BFS over insert/delete(present+absent)/delete-by-handle/write-by-handle/clear on the real MapTree for several capacity hints and two value types (u16, heap-backed), full lookup sweep against a BTreeMap after every transition.", "5"),
    "C05": ("Same exploration on the separate SetTree copy with key+payload values (u16 and heap payloads) and bare integers.", "5"),
    "C06": ("Every exact lookup (stored, expired, never-stored key at every time) is a transition of the K explorer from every reachable state; result compared with the reference model.", "5"),
    "C07": ("For every transition arrival of the K explorer and every export time t' >= t the history is rebuilt and consumed by into_ordered_vec(t'); result compared with the model for tree and list.", "5"),
    "C08": ("In every reachable state of MapTree and SetTree and for every probe: both handle queries, dereference, write-through-handle and delete-through-handle transitions, checked against the model predecessor.", "5"),
    "C09": ("In every reachable SetTree state: successor and predecessor step from every stored handle plus complete forward and backward walks, against the model's key order.", "5"),
    "C10": ("Union sweep with every public operation enabled on all seven collections, all capacity hints and segment domains, in a build with debug assertions, overflow and unsafe-precondition checks; only the process outcome (panic, abort, hang) is judged. Constructor probes with niche-carrying key/value types run in subprocesses.", "5"),
    "C11": ("Slot partition {sentinel} + {reachable} + {free list} and the growth bound evaluated on every reachable state for hints 0, 1, 8, 9, 64; buffer length, free list and its capacity are part of the state identity, so reaching the fixpoint shows independence from history length.", "5"),
    "C12": ("Clear (and clear with clock restart) is an ordinary transition; post-clear states are explored to the fixpoint against a reset reference model, and every post-clear history is additionally replayed on a freshly constructed twin whose observation vector must be identical.", "5"),
    "C13": ("The M and K explorations with MapList, SetList and KeyExpList as subject: full alphabet incl. handle operations, neighbour steps at both ends, positions as handles, export, callback log, against the same reference models.", "5"),
    "C14": ("Complete enumeration of a configuration family: 7 offsets x every length 1..2100 (thorough 1..70000) plus 2^k-1, 2^k, 2^k+1 on i32/u32/i64 domains; constructor verdict, number of bucket lists, leaf place of every coordinate (or every bucket edge) and point queries across bucket edges.", "5"),
    "C15": ("Complete enumeration of the finite space: 528 insert ranges (stored places must tile the range exactly with at most 8 maximal nodes, checked with independent heap arithmetic) x 528 query ranges (value yielded exactly once iff the ranges overlap).", "5"),
    "C16": ("For every insert range x expiration x query time (and every sub-range query for expired values) the bucket lists are inspected after the fully consumed query; plus the purge oracle after every whole-domain query inside the S fixpoint search.", "5"),
    "C17": ("From every reachable state of MapTree/SetTree (incl. across arena growth) and every enabled insert: handles of all stored entries are recorded before and must dereference to the same entry and be returned by first_index_less afterwards; induction over reachable states gives arbitrary insertion sequences.", "5"),
    "C18": ("Fault enumeration inside the state-space search: every transition of every reachable state is re-executed once per user-callback invocation index with a panic injected there (deviation bound 1 quick / 2 thorough); afterwards structure and arena invariants must hold and the contents must be those before or after the operation; post-panic states are explored further.", "5"),
    "C19": ("Every terminal export in the K search (all shapes over the universe, across arena growth) and a deterministic size family (0..64, 2^k-1/2^k/2^k+1 up to 2^14 quick / 2^21 thorough, ascending / descending / inside-out) under RLIMIT_AS: capacity <= 8n+64.", "5"),
    "C20": ("An instrumented key type and comparator closure log the arguments of every comparison during every transition of the K search (tree and list); each logged stored key must be live at the operation's time.", "5"),
}

NOTE = ("Bounded-exhaustive: holds for every history over the small universes listed in the evidence (keys, times, populations, domains); states merged on 128-bit fingerprints of the hook snapshot "
        "plus the stable raw words of the collection struct (so fields a changed implementation adds still distinguish states); "
        "'live'/'shape' state abstractions cross-checked by 'full' runs; trusted base: the harness's reference models and invariant checkers (mc/src), rustc, the snapshot hooks.")


def main():
    repo_commits = subprocess.run(["git", "-C", "/repo", "log", "--format=%H %s"], capture_output=True, text=True).stdout.strip().splitlines()
    hook_commits = [l.split()[0] for l in repo_commits if "verif hook" in l]
    checks = []
    for p in sorted(SPECS):
        text, sec = TEXT[p]
        bfs = any(s["args"][0] == "bfs" for s in SPECS[p]["quick"])
        sweep = any(s["args"][0] == "sweep" for s in SPECS[p]["quick"])
        tech = []
        if bfs:
            tech.append("explicit-state BFS to fixpoint over the real implementation (replay-rebuilt states, fingerprint dedup on hook snapshot + raw struct words, unmerged audit suffixes) against a reference model")
        if sweep:
            tech.append("complete enumeration of a finite input/configuration family on the real code")
        if any(s["args"][0] == "family" for s in SPECS[p]["quick"]):
            tech.append("plus finite families of long deterministic histories (trees of 9..120 entries; scale families up to millions of entries) through the same oracles")
        if p == "C10":
            tech.append("callback-panic injection incl. Clone/Default of the value type, process outcome only")
        if p == "C18":
            tech.append("exhaustive callback-panic injection per transition (deviation-bounded)")
        checks.append({
            "property_id": p,
            "quick_cmd": f"./check {p} quick",
            "thorough_cmd": f"./check {p} thorough",
            "evidence_file": f"/verif/evidence/{p}.json",
            "replay_cmd_template": "./check replay {path}",
            "engine": "itree-mc",
            "level_claimed": {"category": "model_checking", "text": text, "design_ref": f"DESIGN.md section {sec} ({p})"},
            "level_note": NOTE,
            "technique": "; ".join(tech),
        })
    man = {
        "version": 1,
        "setup_cmd": "./check build",
        "hooks": {
            "guard": "--cfg itree_verif",
            "enable": "RUSTFLAGS='--cfg itree_verif --check-cfg cfg(itree_verif)' (set in /verif/mc/.cargo/config.toml; the engine crate depends on /repo by path, so every check rebuilds /repo's working tree with the hooks on)",
            "baseline_off_cmd": "cd /repo && cargo test --workspace --no-fail-fast --offline",
            "source_commits": hook_commits,
            "add_only": True,
        },
        "engines": [{
            "name": "itree-mc",
            "path": "/verif/mc",
            "serves_properties": sorted(SPECS),
            "kind_free_text": "std-only Rust explicit-state model checker executing the real i_tree code: level-synchronous parallel BFS over histories with replay-rebuilt objects, canonical-state fingerprints, reference models, structural snapshot invariants, callback fault injection, abort/hang capture; plus finite sweeps. Driver: /verif/check (python3 stdlib), run table: /verif/specs.py",
        }],
        "checks": checks,
        "not_applicable": [],
        "notes": "All 20 properties are decided by bounded exhaustive exploration of the implementation itself (no separate model). Known findings: /verif/known_findings.txt. Seeded property-breaking changes: /verif/seeded/. See DESIGN.md.",
    }
    with open(os.path.join(HERE, "MANIFEST.json"), "w") as f:
        json.dump(man, f, indent=1)
        f.write("\n")
    print("MANIFEST.json written:", len(checks), "checks")


if __name__ == "__main__":
    main()
